package main

// Channels, maps, select, go statements and sync primitives.

import (
	"go/types"

	"golang.org/x/tools/go/ssa"
)

type builtinModel func(x *Exec, st *State, fr *Frame, site ssa.Instruction, fn *ssa.Function, args []*Val, kn func(*State, []*Val), kp func(*State, *Val))

var builtinModels = map[string]builtinModel{}
var builtinWrites = map[string]func(x *Exec, st *State) []heapKey{}

func (x *Exec) noteAccess(st *State, fr *Frame, in ssa.Instruction, pv *Val, write bool) {}

func (x *Exec) lockHeld(st *State, name string) bool {
	for _, l := range st.locks {
		if l == name {
			return true
		}
	}
	return false
}

func (x *Exec) chanKeys(st *State) []heapKey { return nil }

func (x *Exec) mapKeys(st *State, t types.Type) []heapKey { return nil }

func (x *Exec) chanInit(st *State, ref Tm, sz Tm) { engineErr("channels not supported yet") }

func (x *Exec) chanLen(st *State, fr *Frame, site ssa.Instruction, ch *Val) *Val {
	engineErr("channels not supported yet")
	return nil
}

func (x *Exec) chanLenIn(st *State, view map[string]Tm, ch *Val) *Val {
	engineErr("channels not supported yet")
	return nil
}

func (x *Exec) chanCap(st *State, ch *Val) *Val {
	engineErr("channels not supported yet")
	return nil
}

func (x *Exec) chanClose(st *State, fr *Frame, site ssa.Instruction, ch *Val, kn func(*State, []*Val), kp func(*State, *Val)) {
	engineErr("channels not supported yet")
}

func (x *Exec) mapInit(st *State, t types.Type, ref Tm) {}

func (x *Exec) lookup(st *State, fr *Frame, in *ssa.Lookup) bool {
	engineErr("map lookup not supported yet")
	return true
}

func (x *Exec) mapUpdate(st *State, fr *Frame, in *ssa.MapUpdate) bool {
	engineErr("map update not supported yet")
	return true
}

func (x *Exec) mapDelete(st *State, fr *Frame, cc *ssa.CallCommon, args []*Val) {
	engineErr("map delete not supported yet")
}

func (x *Exec) goStmt(st *State, fr *Frame, in *ssa.Go, next func(*State)) {
	engineErr("go statement not supported yet")
}

func (x *Exec) selectStmt(st *State, fr *Frame, in *ssa.Select, next func(*State)) {
	engineErr("select not supported yet")
}

func (x *Exec) sendStmt(st *State, fr *Frame, in *ssa.Send, next func(*State)) {
	engineErr("send not supported yet")
}

func (x *Exec) recvStmt(st *State, fr *Frame, in *ssa.UnOp, next func(*State)) {
	engineErr("receive not supported yet")
}

func (x *Exec) rangeStmt(st *State, fr *Frame, in *ssa.Range, next func(*State)) {
	engineErr("range over map/string not supported yet")
}

func (x *Exec) nextStmt(st *State, fr *Frame, in *ssa.Next, next func(*State)) {
	engineErr("range over map/string not supported yet")
}
