package main

// Channels, select, go statements, sync/atomic and sync.Mutex as *atomic points*
// (DESIGN.md 2.3): every operation on shared state appends a named event to the ghost
// trace, its result is nondeterministic (other goroutines interfere), constrained only
// by what is stable (monotone flags, closed Done channels). Per-function contracts speak
// about the sequence of atomic points on each path.
//
// Event names are source-like descriptions of the operand:
//   "send c.writeQueue", "recv c.writeQueue", "select send c.writeQueue",
//   "select recv ctx.Done()", "select recv c.ctx.Done()", "select default",
//   "len c.writeQueue", "cas c.running", "load c.closed", "store c.running",
//   "lock c.writeLock", "unlock c.writeLock", "go <fn>", "close signal"

import (
	"regexp"
	"fmt"
	"go/types"
	"math/big"
	"strings"

	"golang.org/x/tools/go/ssa"
)

type builtinModel func(x *Exec, st *State, fr *Frame, site ssa.Instruction, fn *ssa.Function, args []*Val, kn func(*State, []*Val), kp func(*State, *Val))

var builtinModels = map[string]builtinModel{}
var builtinWrites = map[string]func(x *Exec, st *State) []heapKey{}

func init() {
	builtinModels["sync/atomic.CompareAndSwapInt32"] = atomicCAS
	builtinModels["sync/atomic.LoadInt32"] = atomicLoad
	builtinModels["sync/atomic.StoreInt32"] = atomicStore
	builtinModels["sync/atomic.AddInt64"] = atomicAdd
	builtinModels["(*sync.Mutex).Lock"] = mutexOp("lock", true)
	builtinModels["(*sync.Mutex).Unlock"] = mutexOp("unlock", false)
	builtinModels["(*sync.RWMutex).Lock"] = mutexOp("lock", true)
	builtinModels["(*sync.RWMutex).Unlock"] = mutexOp("unlock", false)
	builtinModels["(*sync.RWMutex).RLock"] = mutexOp("rlock", true)
	builtinModels["(*sync.RWMutex).RUnlock"] = mutexOp("runlock", false)
	for k := range builtinModels {
		builtinWrites[k] = func(x *Exec, st *State) []heapKey { return nil }
	}
}

// The rest of package sync/atomic (functions on plain words and the methods of the typed atomics):
// one generic model. An operation is an atomic point (a trace event) only if the field it works on
// is declared `atomic` in a contract file - the operations the contracts speak about. Operations on
// other words (a statistics counter added later, say) are no events: a load, add or swap returns an
// arbitrary value, a store is not remembered, nothing else changes. That such a field is used
// atomically everywhere is the business of the C12 coverage obligation, not of the traces.
var atomicFamily = regexp.MustCompile(`^(?:sync/atomic\.(Load|Store|Add|Swap|CompareAndSwap|And|Or)(?:Int32|Int64|Uint32|Uint64|Uintptr|Pointer)|\(\*sync/atomic\.(?:Int32|Int64|Uint32|Uint64|Uintptr|Bool|Pointer\[.*\])\)\.(Load|Store|Add|Swap|CompareAndSwap|And|Or))$`)

func lookupBuiltinModel(key string) builtinModel {
	if bm, ok := builtinModels[key]; ok {
		return bm
	}
	m := atomicFamily.FindStringSubmatch(key)
	if m == nil {
		return nil
	}
	op := strings.ToLower(m[1] + m[2])
	if op == "compareandswap" {
		op = "cas"
	}
	return func(x *Exec, st *State, fr *Frame, site ssa.Instruction, fn *ssa.Function, args []*Val, kn func(*State, []*Val), kp func(*State, *Val)) {
		var res []*Val
		if r := fn.Signature.Results(); r.Len() == 1 {
			res = []*Val{st.freshVal("atomic."+op, r.At(0).Type())}
		}
		if x.atomicDecl(ptrOf(args[0])) != nil {
			x.atomicEvent(st, op+" "+callArgDesc(site, 0), args[1:], res)
		}
		kn(st, res)
	}
}

// describe reconstructs a source-like name for an SSA value (parameters, field
// selections, method calls on those).
func describe(v ssa.Value) string {
	switch v := v.(type) {
	case *ssa.Parameter:
		return v.Name()
	case *ssa.FreeVar:
		return v.Name()
	case *ssa.Global:
		return v.Name()
	case *ssa.FieldAddr:
		st := deref(v.X.Type()).Underlying().(*types.Struct)
		return describe(v.X) + "." + st.Field(v.Field).Name()
	case *ssa.Field:
		st := v.X.Type().Underlying().(*types.Struct)
		return describe(v.X) + "." + st.Field(v.Field).Name()
	case *ssa.UnOp:
		return describe(v.X) // load
	case *ssa.Alloc:
		if v.Comment != "" {
			return v.Comment
		}
	case *ssa.Call:
		if v.Call.IsInvoke() {
			return describe(v.Call.Value) + "." + v.Call.Method.Name() + "()"
		}
		if sc := v.Call.StaticCallee(); sc != nil {
			return sc.Name() + "()"
		}
	case *ssa.ChangeInterface:
		return describe(v.X)
	case *ssa.ChangeType:
		return describe(v.X)
	case *ssa.MakeInterface:
		return describe(v.X)
	case *ssa.MakeChan:
		// named by the variable it is assigned to, if the debug info says so
		if refs := v.Referrers(); refs != nil {
			for _, r := range *refs {
				if d, ok := r.(*ssa.DebugRef); ok {
					if o := d.Object(); o != nil {
						return o.Name()
					}
				}
			}
		}
	case *ssa.Phi:
		if v.Comment != "" {
			return v.Comment
		}
	case *ssa.Extract:
		return describe(v.Tuple)
	}
	return v.Name()
}

func (x *Exec) atomicEvent(st *State, name string, args []*Val, res []*Val) {
	st.trace = append(st.trace, Event{Callee: name, Short: name, Args: args, Res: res, Heap: st.heapCopy()})
}

// fieldOfAddr: the declared protection clause of the field an address points to.
func (x *Exec) atomicDecl(p *Ptr) *FieldDecl {
	if p == nil || p.Kind != PObj || len(p.Path) != 1 {
		return nil
	}
	stt, ok := p.Root.Underlying().(*types.Struct)
	if !ok {
		return nil
	}
	name := namedStructKey(p.Root)
	for _, fd := range x.cs.Fields {
		if fd.Kind == "atomic" && fd.Pkg+"."+fd.Type == name && fd.Field == stt.Field(p.Path[0]).Name() {
			return fd
		}
	}
	return nil
}

func callArgDesc(site ssa.Instruction, i int) string {
	if c, ok := site.(ssa.CallInstruction); ok {
		if i < len(c.Common().Args) {
			return describe(c.Common().Args[i])
		}
	}
	return "?"
}

// atomic loads return an arbitrary value (other goroutines), except that a field
// declared "atomic monotone" never goes below the value this path last knew.
func atomicLoad(x *Exec, st *State, fr *Frame, site ssa.Instruction, fn *ssa.Function, args []*Val, kn func(*State, []*Val), kp func(*State, *Val)) {
	m := st.m
	t := fn.Signature.Results().At(0).Type()
	v := st.freshVal("atomic.load", t)
	p := ptrOf(args[0])
	if fd := x.atomicDecl(p); fd != nil && strings.Contains(fd.Arg, "monotone") {
		ii, _ := basicIntInfo(t)
		cur := st.loadFrom(st.heap, p)
		st.assume(and(m.cmp(tokenLE, cur.S, v.S, ii), m.cmp(tokenLE, v.S, m.lit(pow2(0), ii), ii)))
		st.storeTo(p, v) // what we now know
	}
	if x.atomicDecl(p) != nil {
		x.atomicEvent(st, "load "+callArgDesc(site, 0), nil, []*Val{v})
	}
	kn(st, []*Val{v})
}

func atomicStore(x *Exec, st *State, fr *Frame, site ssa.Instruction, fn *ssa.Function, args []*Val, kn func(*State, []*Val), kp func(*State, *Val)) {
	if x.atomicDecl(ptrOf(args[0])) == nil {
		kn(st, nil) // not a declared atomic field: no atomic point, the value is not tracked
		return
	}
	x.atomicEvent(st, "store "+callArgDesc(site, 0), []*Val{args[1]}, nil)
	st.storeTo(ptrOf(args[0]), args[1])
	kn(st, nil)
}

func atomicCAS(x *Exec, st *State, fr *Frame, site ssa.Instruction, fn *ssa.Function, args []*Val, kn func(*State, []*Val), kp func(*State, *Val)) {
	m := st.m
	ok := st.freshVal("cas.ok", types.Typ[types.Bool])
	p := ptrOf(args[0])
	if fd := x.atomicDecl(p); fd != nil && strings.Contains(fd.Arg, "monotone") {
		// the flag never decreases: a CAS from a value below what we know cannot succeed
		ii, _ := basicIntInfo(args[1].T)
		cur := st.loadFrom(st.heap, p)
		st.assume(implies(ok.S, m.cmp(tokenLE, cur.S, args[1].S, ii)))
	}
	if x.atomicDecl(p) == nil {
		kn(st, []*Val{ok}) // not a declared atomic field: no atomic point, the value is not tracked
		return
	}
	x.atomicEvent(st, "cas "+callArgDesc(site, 0), []*Val{args[1], args[2]}, []*Val{ok})
	// on success the field holds the new value (as far as this path knows)
	monotone := false
	if fd := x.atomicDecl(p); fd != nil && strings.Contains(fd.Arg, "monotone") {
		monotone = true
	}
	x.branch(st, ok.S,
		func(s *State) { s.storeTo(p, args[2]); kn(s, []*Val{ok}) },
		func(s *State) {
			if monotone {
				// the flag was not 'old': for a 0/1 flag that never decreases it is above it
				ii, _ := basicIntInfo(args[1].T)
				cur := s.loadFrom(s.heap, p)
				nv := s.freshVal("cas.seen", args[1].T)
				s.assume(and(m.cmp(tokenLE, cur.S, nv.S, ii), not(eq(nv.S, args[1].S)), m.cmp(tokenLE, nv.S, m.lit(pow2(0), ii), ii), m.cmp(tokenLE, m.lit(big.NewInt(0), ii), nv.S, ii)))
				s.storeTo(p, nv)
			}
			kn(s, []*Val{ok})
		})
}

func atomicAdd(x *Exec, st *State, fr *Frame, site ssa.Instruction, fn *ssa.Function, args []*Val, kn func(*State, []*Val), kp func(*State, *Val)) {
	v := st.freshVal("atomic.add", fn.Signature.Results().At(0).Type())
	if x.atomicDecl(ptrOf(args[0])) != nil {
		x.atomicEvent(st, "add "+callArgDesc(site, 0), []*Val{args[1]}, []*Val{v})
	}
	kn(st, []*Val{v})
}

func mutexOp(kind string, acquire bool) builtinModel {
	return func(x *Exec, st *State, fr *Frame, site ssa.Instruction, fn *ssa.Function, args []*Val, kn func(*State, []*Val), kp func(*State, *Val)) {
		name := callArgDesc(site, 0)
		x.atomicEvent(st, kind+" "+name, nil, nil)
		if acquire {
			st.locks = append(st.locks, kind+" "+name)
			x.havocGuarded(st, site)
			x.lockInvariant(st, fr, site, true)
			// at(<lock event>, e) speaks about the state the acquirer finds
			st.trace[len(st.trace)-1].Heap = st.heapCopy()
		} else {
			if kind == "unlock" {
				x.lockInvariant(st, fr, site, false)
			}
			want := strings.TrimPrefix(kind, "un")
			if kind == "runlock" {
				want = "rlock"
			}
			for i := len(st.locks) - 1; i >= 0; i-- {
				if st.locks[i] == want+" "+name {
					st.locks = append(append([]string{}, st.locks[:i]...), st.locks[i+1:]...)
					break
				}
			}
		}
		kn(st, nil)
	}
}

// havocGuarded: thread-modular reading of a mutex: whatever other threads did to the fields
// declared "guarded_by <mu>" becomes visible when the lock is acquired (the fields of ALL objects of
// the type are forgotten - an over-approximation).
func (x *Exec) havocGuarded(st *State, site ssa.Instruction) {
	ci, ok := site.(ssa.CallInstruction)
	if !ok || len(ci.Common().Args) == 0 {
		return
	}
	fa, ok := ci.Common().Args[0].(*ssa.FieldAddr)
	if !ok {
		return
	}
	stt := deref(fa.X.Type())
	sst, ok := stt.Underlying().(*types.Struct)
	if !ok {
		return
	}
	mu := sst.Field(fa.Field).Name()
	tname := namedStructKey(stt)
	for _, fd := range x.cs.Fields {
		if fd.Kind != "guarded_by" || fd.Pkg+"."+fd.Type != tname {
			continue
		}
		if f := strings.Fields(fd.Arg); len(f) == 0 || f[0] != mu {
			continue
		}
		// a clause that names a field the struct no longer has is reported by the coverage
		// scan and by the posts that mention it, not here
		present := false
		for i := 0; i < sst.NumFields(); i++ {
			if sst.Field(i).Name() == fd.Field {
				present = true
			}
		}
		if !present {
			continue
		}
		for _, k := range x.modifiesKeys(st, fd.Pkg, fd.Type+"."+fd.Field) {
			if _, ok := st.sorts[k.key]; !ok {
				st.sorts[k.key] = k.sort
			}
			st.havocKey(k.key)
		}
	}
}

// lockInvariant: "struct T lockinv mu e" - e holds of the object whenever mu is free: assumed
// when the lock is acquired, an obligation when the write lock is released.
func (x *Exec) lockInvariant(st *State, fr *Frame, site ssa.Instruction, acquire bool) {
	ci, ok := site.(ssa.CallInstruction)
	if !ok || len(ci.Common().Args) == 0 {
		return
	}
	fa, ok := ci.Common().Args[0].(*ssa.FieldAddr)
	if !ok {
		return
	}
	stt := deref(fa.X.Type())
	sst, ok := stt.Underlying().(*types.Struct)
	if !ok {
		return
	}
	mu := sst.Field(fa.Field).Name()
	tname := namedStructKey(stt)
	for _, inv := range x.cs.Invs {
		if inv.Lock != mu || inv.Type != tname {
			continue
		}
		self := x.operand(st, fr, fa.X)
		env := &CEnv{x: x, st: st, vars: map[string]*Val{"self": self}, pkg: inv.Pkg}
		if acquire {
			st.assume(env.hyp(inv.Cl))
		} else {
			x.emit(st, "lockinv:"+sst.Field(fa.Field).Name()+"."+inv.Cl.Label, "lockinv", env.goal(inv.Cl), "lock invariant of "+inv.Type+"."+mu+" holds when the lock is released")
		}
	}
}

func (x *Exec) noteAccess(st *State, fr *Frame, in ssa.Instruction, pv *Val, write bool) {}

func (x *Exec) lockHeld(st *State, name string) bool {
	for _, l := range st.locks {
		if strings.HasSuffix(l, " "+name) {
			return true
		}
	}
	return false
}

// ---------------------------------------------------------------------------
// channels: ghost qcap(ch) (capacity, fixed), chclosed(ch) (closed; monotone)

func (x *Exec) chanGhost(st *State, name string, keys []string, res string) *GhostDecl {
	gd := x.cs.Ghosts[name]
	if gd == nil {
		gd = &GhostDecl{Name: name, Keys: keys, Result: res}
		x.cs.Ghosts[name] = gd
	}
	return gd
}

func (x *Exec) qcapTerm(st *State, ch *Val) Tm {
	gd := x.chanGhost(st, "qcap", []string{"ref"}, "int const")
	s := x.ghostSort(st.m, gd)
	key := "ghost|qcap"
	if _, ok := st.sorts[key]; !ok {
		st.sorts[key] = s
	}
	return sel(Tm{"H0!" + sanitize(key), s}, ch.S, st.m.idx())
}

func (x *Exec) chclosedTerm(st *State, view map[string]Tm, ch Tm) Tm {
	gd := x.chanGhost(st, "chclosed", []string{"ref"}, "bool")
	return sel(st.viewGet(view, "ghost|chclosed", x.ghostSort(st.m, gd)), ch, SBool)
}

func (x *Exec) chanKeys(st *State) []heapKey {
	gd := x.chanGhost(st, "chclosed", []string{"ref"}, "bool")
	return []heapKey{{"ghost|chclosed", x.ghostSort(st.m, gd)}}
}

func (x *Exec) mapKeys(st *State, t types.Type) []heapKey { return nil }

func (x *Exec) chanInit(st *State, ref Tm, sz Tm) {
	st.assume(eq(x.qcapTerm(st, scalar(nil, KChan, ref)), sz))
	// a new channel is open
	gd := x.chanGhost(st, "chclosed", []string{"ref"}, "bool")
	key := "ghost|chclosed"
	cur := st.heapGet(key, x.ghostSort(st.m, gd))
	st.heapSet(key, store(cur, ref, tFalse))
}

func (x *Exec) chanLen(st *State, fr *Frame, site ssa.Instruction, ch *Val) *Val {
	m := st.m
	v := st.freshVal("chan.len", types.Typ[types.Int])
	st.assume(and(m.le(m.idxLit(0), v.S), m.le(v.S, x.qcapTerm(st, ch))))
	x.atomicEvent(st, "len "+callArgDesc(site, 0), []*Val{ch}, []*Val{v})
	return v
}

func (x *Exec) chanLenIn(st *State, view map[string]Tm, ch *Val) *Val {
	engineErr("len of a channel in a contract expression: use the 'len <chan>' event")
	return nil
}

func (x *Exec) chanCap(st *State, ch *Val) *Val {
	return scalar(types.Typ[types.Int], KInt, x.qcapTerm(st, ch))
}

func (x *Exec) chanClose(st *State, fr *Frame, site ssa.Instruction, ch *Val, kn func(*State, []*Val), kp func(*State, *Val)) {
	x.fault(st, fr, site, "nil", not(isNilTm(ch)))
	// closing a closed channel panics
	closed := x.chclosedTerm(st, st.heap, ch.S)
	x.fault(st, fr, site, "closeclosed", not(closed))
	x.atomicEvent(st, "close "+callArgDesc(site, 0), []*Val{ch}, nil)
	gd := x.chanGhost(st, "chclosed", []string{"ref"}, "bool")
	key := "ghost|chclosed"
	cur := st.heapGet(key, x.ghostSort(st.m, gd))
	st.heapSet(key, store(cur, ch.S, tTrue))
	kn(st, nil)
}

func (x *Exec) mapInit(st *State, t types.Type, ref Tm) {}

func (x *Exec) lookup(st *State, fr *Frame, in *ssa.Lookup) bool {
	// map lookup: the result is unconstrained (the map content is not modelled), recorded as an event
	if _, isMap := in.X.Type().Underlying().(*types.Map); !isMap {
		engineErr("string index lookup not supported")
	}
	mv := x.operand(st, fr, in.X)
	kv := x.operand(st, fr, in.Index)
	var res *Val
	if in.CommaOk {
		v := st.freshVal("map.val", in.Type().(*types.Tuple).At(0).Type())
		ok := st.freshVal("map.ok", types.Typ[types.Bool])
		res = &Val{T: in.Type(), K: KTuple, Fs: []*Val{v, ok}}
		x.atomicEvent(st, "maplookup "+describe(in.X), []*Val{mv, kv}, []*Val{v, ok})
	} else {
		res = st.freshVal("map.val", in.Type())
		x.atomicEvent(st, "maplookup "+describe(in.X), []*Val{mv, kv}, []*Val{res})
	}
	x.setVal(st, fr, in, res)
	return true
}

// mapValuesNonNil: the map value flows (in this function) from a load of a field declared
// "field T.f mapvalues nonnil": an invariant on the map content - every update through the field
// stores a non-nil value (obligation), every value read from it is non-nil (assumed).
func (x *Exec) mapValuesNonNil(v ssa.Value) bool {
	for {
		switch w := v.(type) {
		case *ssa.Range:
			v = w.X
			continue
		case *ssa.Call:
			// the map is what an uncontracted repository helper returns: follow its (single) result
			if sc := w.Call.StaticCallee(); sc != nil && sc.Blocks != nil && !helperHasContract(sc) && sc.Signature.Results().Len() == 1 {
				var rets []ssa.Value
				for _, b := range sc.Blocks {
					if r, ok := b.Instrs[len(b.Instrs)-1].(*ssa.Return); ok && len(r.Results) == 1 {
						rets = append(rets, r.Results[0])
					}
				}
				if len(rets) == 1 {
					v = rets[0]
					continue
				}
			}
			return false
		case *ssa.UnOp:
			fa, ok := w.X.(*ssa.FieldAddr)
			if !ok {
				return false
			}
			stt := deref(fa.X.Type())
			sst, ok := stt.Underlying().(*types.Struct)
			if !ok {
				return false
			}
			for _, fd := range x.cs.Fields {
				if fd.Kind == "mapvalues" && strings.TrimSpace(fd.Arg) == "nonnil" && fd.Pkg+"."+fd.Type == namedStructKey(stt) && fd.Field == sst.Field(fa.Field).Name() {
					return true
				}
			}
		}
		return false
	}
}

func (x *Exec) mapUpdate(st *State, fr *Frame, in *ssa.MapUpdate) bool {
	mv := x.operand(st, fr, in.Map)
	x.fault(st, fr, in, "nil", not(isNilTm(mv)))
	if x.mapValuesNonNil(in.Map) {
		x.fault(st, fr, in, "mapvalue", not(isNilTm(x.operand(st, fr, in.Value))))
	}
	x.atomicEvent(st, "mapupdate "+describe(in.Map), []*Val{mv, x.operand(st, fr, in.Key), x.operand(st, fr, in.Value)}, nil)
	return true
}

func (x *Exec) mapDelete(st *State, fr *Frame, cc *ssa.CallCommon, args []*Val) {
	x.atomicEvent(st, "mapdelete "+describe(cc.Args[0]), args, nil)
}

func (x *Exec) goStmt(st *State, fr *Frame, in *ssa.Go, next func(*State)) {
	var args []*Val
	for _, a := range in.Call.Args {
		args = append(args, x.operand(st, fr, a))
	}
	name := describe(in.Call.Value)
	if sc := in.Call.StaticCallee(); sc != nil {
		name = sc.Name()
	}
	if _, isB := in.Call.Value.(*ssa.Builtin); !isB {
		args = append([]*Val{x.operand(st, fr, in.Call.Value)}, args...)
	}
	x.atomicEvent(st, "go "+name, args, nil)
	next(st)
}

// selectStmt: nondeterministic choice among the cases (Go's semantics); receiving from a
// Done channel is possible only if it is closed; default only if no Done channel is closed
// (whether a send or a data receive is possible depends on other goroutines).
func (x *Exec) selectStmt(st *State, fr *Frame, in *ssa.Select, next func(*State)) {
	m := st.m
	type caseInfo struct {
		ch   *Val
		send *Val
		name string
	}
	var cases []caseInfo
	for _, s := range in.States {
		ci := caseInfo{ch: x.operand(st, fr, s.Chan), name: describe(s.Chan)}
		if s.Send != nil {
			ci.send = x.operand(st, fr, s.Send)
		}
		cases = append(cases, ci)
	}
	tt := in.Type().(*types.Tuple)
	mk := func(s *State, idx int, recvVals map[int]*Val, okv Tm) {
		fs := []*Val{scalar(types.Typ[types.Int], KInt, m.idxLit(int64(idx))), scalar(types.Typ[types.Bool], KBool, okv)}
		ri := 0
		for i, sst := range in.States {
			if sst.Dir == types.RecvOnly {
				if v, ok := recvVals[i]; ok {
					fs = append(fs, v)
				} else {
					fs = append(fs, m.zero(tt.At(2+ri).Type()))
				}
				ri++
			}
		}
		x.setVal(s, fr, in, &Val{T: in.Type(), K: KTuple, Fs: fs})
		next(s)
	}
	var chans []*Val
	for _, ci := range cases {
		chans = append(chans, ci.ch)
	}
	if in.Blocking {
		x.atomicEvent(st, "select blocking", chans, nil)
	} else {
		x.atomicEvent(st, "select nonblocking", chans, nil)
	}
	n := len(cases)
	if !in.Blocking {
		n++
	}
	for i := 0; i < n; i++ {
		s := st
		if i < n-1 {
			x.pathLimit()
			s = st.clone()
		}
		if i == len(cases) { // default
			for j, c := range cases {
				if in.States[j].Dir == types.RecvOnly && x.isDoneChan(in.States[j].Chan) {
					s.assume(not(x.chclosedTerm(s, s.heap, c.ch.S)))
				}
			}
			x.atomicEvent(s, "select default", nil, nil)
			mk(s, -1, nil, tFalse)
			continue
		}
		c := cases[i]
		x.fault(s, fr, in, "nil", tTrue)
		if in.States[i].Dir == types.SendOnly {
			x.atomicEvent(s, "select send "+c.name, []*Val{c.send, c.ch}, nil)
			mk(s, i, nil, tFalse)
			continue
		}
		elem := in.States[i].Chan.Type().Underlying().(*types.Chan).Elem()
		rv := s.freshVal("recv", elem)
		okv := s.declare("recv.ok", SBool)
		if x.isDoneChan(in.States[i].Chan) {
			s.assume(x.chclosedTerm(s, s.heap, c.ch.S))
			s.assume(not(okv))
		}
		x.atomicEvent(s, "select recv "+c.name, []*Val{c.ch}, []*Val{rv})
		mk(s, i, map[int]*Val{i: rv}, okv)
	}
}

// isDoneChan: the channel comes from a Done() method (context): it is only ever closed.
func (x *Exec) isDoneChan(v ssa.Value) bool {
	if c, ok := v.(*ssa.Call); ok && c.Call.IsInvoke() && c.Call.Method.Name() == "Done" {
		return true
	}
	return false
}

func (x *Exec) sendStmt(st *State, fr *Frame, in *ssa.Send, next func(*State)) {
	ch := x.operand(st, fr, in.Chan)
	v := x.operand(st, fr, in.X)
	x.fault(st, fr, in, "nil", not(isNilTm(ch)))
	x.atomicEvent(st, "send "+describe(in.Chan), []*Val{v, ch}, nil)
	next(st)
}

func (x *Exec) recvStmt(st *State, fr *Frame, in *ssa.UnOp, next func(*State)) {
	ch := x.operand(st, fr, in.X)
	elem := in.X.Type().Underlying().(*types.Chan).Elem()
	rv := st.freshVal("recv", elem)
	if x.isDoneChan(in.X) {
		st.assume(x.chclosedTerm(st, st.heap, ch.S)) // a receive from a Done channel completes only once it is closed
	}
	x.atomicEvent(st, "recv "+describe(in.X), []*Val{ch}, []*Val{rv})
	if in.CommaOk {
		ok := st.freshVal("recv.ok", types.Typ[types.Bool])
		x.setVal(st, fr, in, &Val{T: in.Type(), K: KTuple, Fs: []*Val{rv, ok}})
	} else {
		x.setVal(st, fr, in, rv)
	}
	next(st)
}

// range over a map: each present key is visited once in unspecified order. The loop body
// is verified for an arbitrary element (loop invariant machinery applies at the header).
func (x *Exec) rangeStmt(st *State, fr *Frame, in *ssa.Range, next func(*State)) {
	mv := x.operand(st, fr, in.X)
	if _, ok := in.X.Type().Underlying().(*types.Map); !ok {
		engineErr("range over %s not supported", in.X.Type())
	}
	x.setVal(st, fr, in, &Val{T: in.Type(), K: KMap, S: mv.S})
	next(st)
}

func (x *Exec) nextStmt(st *State, fr *Frame, in *ssa.Next, next func(*State)) {
	if in.IsString {
		engineErr("range over string not supported")
	}
	tt := in.Type().(*types.Tuple)
	ok := st.freshVal("next.ok", types.Typ[types.Bool])
	// a blank key or value has the invalid type in go/ssa: stand-in int
	elemT := func(t types.Type) types.Type {
		if b, isBasic := t.(*types.Basic); isBasic && b.Kind() == types.Invalid {
			return types.Typ[types.Int]
		}
		return t
	}
	k := st.freshVal("next.key", elemT(tt.At(1).Type()))
	v := st.freshVal("next.val", elemT(tt.At(2).Type()))
	it := x.operand(st, fr, in.Iter)
	if x.mapValuesNonNil(in.Iter) {
		st.assume(tm(SBool, "(=> %s %s)", ok.S.S, not(isNilTm(v)).S))
	}
	x.atomicEvent(st, "mapnext", []*Val{it}, []*Val{ok, k, v})
	x.setVal(st, fr, in, &Val{T: in.Type(), K: KTuple, Fs: []*Val{ok, k, v}})
	next(st)
	_ = fmt.Sprint
}
