package main

// C12: protection discipline. Every field of the concurrently usable objects carries a
// protection clause in the contract file; an obligation is generated for EVERY load and store
// of that field anywhere in the repository (so new unsynchronised accesses are caught):
//
//   field T.f atomic                      the access is the address argument of a sync/atomic call
//   field T.f immutable C1,C2             every store is in a constructor (before the object escapes)
//   field T.f guarded_by mu [rw]          the access is made while T.mu is held (write: exclusively)
//   field T.f owned_by F1,F2              the field is accessed only in the listed functions (token/lock owned)
//   field T.f published_by cancel Done    stores precede the call of c.cancel in the same function;
//                                         loads are dominated by a receive from c.ctx.Done()
//   field T.f unprotected                 outside the statement (attachment), listed for completeness
//   lockwrapper (*T).withLock mu w        a function that calls its func argument while holding mu

import (
	"fmt"
	"go/types"
	"sort"
	"strings"

	"golang.org/x/tools/go/ssa"
)

type fieldAccess struct {
	fn    *ssa.Function
	fa    *ssa.FieldAddr
	store bool
	in    ssa.Instruction
	other bool // the address is used otherwise (passed to a call, ...)
}

// accessesOf finds every access to field fname of struct type tname (package-qualified).
func (ld *Loaded) accessesOf(tname, fname string) []fieldAccess {
	var out []fieldAccess
	var keys []string
	for k := range ld.fnByKey {
		keys = append(keys, k)
	}
	sort.Strings(keys)
	for _, k := range keys {
		for _, fn := range ld.fnByKey[k] {
			if fn.Pkg == nil || !strings.HasPrefix(fn.Pkg.Pkg.Path(), "github.com/go-netty/") {
				continue
			}
			for _, b := range fn.Blocks {
				for _, in := range b.Instrs {
					fa, ok := in.(*ssa.FieldAddr)
					if !ok {
						continue
					}
					stt := deref(fa.X.Type())
					if namedStructKey(stt) != tname {
						continue
					}
					if stt.Underlying().(*types.Struct).Field(fa.Field).Name() != fname {
						continue
					}
					refs := fa.Referrers()
					if refs == nil {
						continue
					}
					for _, r := range *refs {
						switch r := r.(type) {
						case *ssa.DebugRef:
						case *ssa.Store:
							if r.Addr == fa {
								out = append(out, fieldAccess{fn: fn, fa: fa, store: true, in: r})
							} else {
								out = append(out, fieldAccess{fn: fn, fa: fa, in: r, other: true})
							}
						case *ssa.UnOp:
							out = append(out, fieldAccess{fn: fn, fa: fa, in: r})
						default:
							out = append(out, fieldAccess{fn: fn, fa: fa, in: r, other: true})
						}
					}
				}
			}
		}
	}
	return out
}

func rootFn(fn *ssa.Function) *ssa.Function {
	for fn.Parent() != nil {
		fn = fn.Parent()
	}
	return fn
}

func dominatesInstr(a ssa.Instruction, b ssa.Instruction) bool {
	ba, bb := a.Block(), b.Block()
	if ba == bb {
		for _, in := range ba.Instrs {
			if in == a {
				return true
			}
			if in == b {
				return false
			}
		}
		return false
	}
	return ba.Dominates(bb)
}

func (ld *Loaded) protectScan(fd *FieldDecl) *FuncResult {
	o := &Obligation{Name: shortStem(fd.Pkg, fd.Type) + "#protect:" + fd.Field, Kind: "protect", Static: true, Props: fd.Props}
	tname := fd.Pkg + "." + fd.Type
	accs := ld.accessesOf(tname, fd.Field)
	var bad []string
	note := func(a fieldAccess, why string) {
		bad = append(bad, fmt.Sprintf("%s in %s: %s", why, a.fn.RelString(a.fn.Pkg.Pkg), a.in))
	}
	args := strings.Fields(fd.Arg)
	switch fd.Kind {
	case "atomic":
		for _, a := range accs {
			ok := false
			if c, isCall := a.in.(ssa.CallInstruction); isCall && a.other {
				if sc := c.Common().StaticCallee(); sc != nil && sc.Pkg != nil && sc.Pkg.Pkg.Path() == "sync/atomic" {
					ok = true
				}
			}
			if !ok && rootCtor(a.fn, nil) {
				ok = false
			}
			if !ok {
				note(a, "non-atomic access")
			}
		}
	case "owned_by":
		allowed := map[string]bool{}
		for _, f := range strings.Split(strings.Join(args, " "), ",") {
			if f = strings.TrimSpace(f); f != "" {
				allowed[qualifyFuncName(f, fd.Pkg)] = true
			}
		}
		for _, a := range accs {
			if !allowed[fnKey(rootFn(a.fn))] {
				note(a, "access outside the owning functions")
			}
		}
	case "guarded_by":
		if len(args) == 0 {
			o.Detail = "guarded_by needs a mutex field"
			break
		}
		mu := args[0]
		for _, a := range accs {
			if ctorOf(ld, fd, a.fn) {
				continue
			}
			mode := ld.lockHeldAt(fd, a, mu)
			switch {
			case mode == "":
				note(a, "access without holding "+mu)
			case a.store && mode == "r":
				note(a, "write while holding only the read lock of "+mu)
			}
		}
	case "published_by":
		// args: <publishing call name> <done channel method>
		for _, a := range accs {
			if ctorOf(ld, fd, a.fn) {
				continue
			}
			if a.store {
				ok := false
				for _, b := range a.fn.Blocks {
					for _, in := range b.Instrs {
						if c, isCall := in.(ssa.CallInstruction); isCall && !c.Common().IsInvoke() {
							if strings.HasSuffix(describe(c.Common().Value), "."+args[0]) && dominatesInstr(a.in, in) {
								ok = true
							}
						}
					}
				}
				if !ok {
					note(a, "store not followed by the publishing call "+args[0])
				}
				continue
			}
			// load: dominated by a receive from the Done channel
			ok := false
			for _, b := range a.fn.Blocks {
				for _, in := range b.Instrs {
					switch r := in.(type) {
					case *ssa.Select:
						for _, s := range r.States {
							if s.Dir == types.RecvOnly && strings.HasSuffix(describe(s.Chan), ".ctx.Done()") && dominatesInstr(in, a.in) {
								ok = true
							}
						}
					case *ssa.UnOp:
						if r.Op.String() == "<-" && strings.HasSuffix(describe(r.X), ".ctx.Done()") && dominatesInstr(in, a.in) {
							ok = true
						}
					}
				}
			}
			if !ok {
				note(a, "read without a preceding receive from ctx.Done() (no happens-before with the store in Close)")
			}
		}
	case "unprotected":
	}
	sort.Strings(bad)
	o.StaticOK = len(bad) == 0
	o.Detail = fmt.Sprintf("field %s.%s %s %s: %d accesses checked", fd.Type, fd.Field, fd.Kind, fd.Arg, len(accs))
	if len(bad) > 0 {
		o.Detail += "; FAILS: " + strings.Join(bad, " | ")
	}
	return &FuncResult{Key: "static:" + o.Name, Obls: []*Obligation{o}}
}

func rootCtor(fn *ssa.Function, _ interface{}) bool { return false }

// ctorOf: is fn (or its enclosing function) a declared constructor of the field's type
// ("field T.* constructed_by ..." or an "immutable" clause naming it)?
func ctorOf(ld *Loaded, fd *FieldDecl, fn *ssa.Function) bool {
	k := fnKey(rootFn(fn))
	for _, o := range ld.cs.Fields {
		if o.Pkg == fd.Pkg && o.Type == fd.Type && o.Kind == "constructed_by" {
			for _, c := range strings.Split(o.Arg, ",") {
				if qualifyFuncName(strings.TrimSpace(c), fd.Pkg) == k {
					return true
				}
			}
		}
	}
	return false
}

// lockHeldAt: "" | "r" | "w" - how the mutex field mu of the same object is held at the access.
// Either the enclosing function locks it (dominating Lock, unlock deferred or later), or the access
// sits in an anonymous function that is only ever passed to a declared lock wrapper.
func (ld *Loaded) lockHeldAt(fd *FieldDecl, a fieldAccess, mu string) string {
	best := ""
	scan := func(fn *ssa.Function, at ssa.Instruction) string {
		mode := ""
		for _, b := range fn.Blocks {
			for _, in := range b.Instrs {
				c, ok := in.(*ssa.Call)
				if !ok {
					continue
				}
				sc := c.Call.StaticCallee()
				if sc == nil || len(c.Call.Args) == 0 {
					continue
				}
				k := fnKey(sc)
				if !strings.HasSuffix(describe(c.Call.Args[0]), "."+mu) {
					continue
				}
				if at != nil && !dominatesInstr(in, at) {
					continue
				}
				switch k {
				case "(*sync.Mutex).Lock", "(*sync.RWMutex).Lock":
					mode = "w"
				case "(*sync.RWMutex).RLock":
					if mode == "" {
						mode = "r"
					}
				case "(*sync.Mutex).Unlock", "(*sync.RWMutex).Unlock", "(*sync.RWMutex).RUnlock":
					mode = "" // released before the access
				}
			}
		}
		return mode
	}
	if m := scan(a.fn, a.in); m != "" {
		return m
	}
	// anonymous function passed only to lock wrappers
	if a.fn.Parent() != nil {
		parent := a.fn.Parent()
		all := true
		found := false
		for _, b := range parent.Blocks {
			for _, in := range b.Instrs {
				mc, ok := in.(*ssa.MakeClosure)
				if !ok || mc.Fn != a.fn {
					continue
				}
				refs := mc.Referrers()
				if refs == nil {
					all = false
					continue
				}
				for _, r := range *refs {
					if _, isDbg := r.(*ssa.DebugRef); isDbg {
						continue
					}
					call, ok := r.(*ssa.Call)
					if !ok || call.Call.StaticCallee() == nil {
						all = false
						continue
					}
					wk := fnKey(call.Call.StaticCallee())
					w := ""
					for _, lw := range ld.cs.Fields {
						if lw.Kind == "lockwrapper" && qualifyFuncName(lw.Type, lw.Pkg) == wk {
							f := strings.Fields(lw.Arg)
							if len(f) == 2 && f[0] == mu {
								w = f[1]
							}
						}
					}
					if w == "" {
						all = false
						continue
					}
					found = true
					if best == "" || w == "r" {
						best = w
					}
				}
			}
		}
		if found && all {
			return best
		}
	}
	return ""
}
