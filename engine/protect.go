package main

// C12: protection discipline. Every field of the concurrently usable objects carries a
// protection clause in the contract file; an obligation is generated for EVERY load and store
// of that field anywhere in the repository (so new unsynchronised accesses are caught):
//
//   field T.f atomic                      the access is the address argument of a sync/atomic call
//   field T.f immutable C1,C2             every store is in a constructor (before the object escapes)
//   field T.f guarded_by mu [rw]          the access is made while T.mu is held (write: exclusively)
//   field T.f owned_by F1,F2              the field is accessed only in the listed functions (token/lock owned)
//   field T.f published_by cancel Done    stores precede the call of c.cancel in the same function;
//                                         loads are dominated by a receive from c.ctx.Done()
//   field T.f unprotected                 outside the statement (attachment), listed for completeness
//   lockwrapper (*T).withLock mu w        a function that calls its func argument while holding mu

import (
	"fmt"
	"go/token"
	"go/types"
	"sort"
	"strings"

	"golang.org/x/tools/go/ssa"
)

type fieldAccess struct {
	fn    *ssa.Function
	fa    *ssa.FieldAddr
	store bool
	in    ssa.Instruction
	other bool // the address is used otherwise (passed to a call, ...)
}

// accessesOf finds every access to field fname of struct type tname (package-qualified).
func (ld *Loaded) accessesOf(tname, fname string) []fieldAccess {
	var out []fieldAccess
	var keys []string
	for k := range ld.fnByKey {
		keys = append(keys, k)
	}
	sort.Strings(keys)
	for _, k := range keys {
		for _, fn := range ld.fnByKey[k] {
			if tp := typesPkgOf(fn); tp == nil || !strings.HasPrefix(tp.Path(), "github.com/go-netty/") {
				continue
			}
			for _, b := range fn.Blocks {
				for _, in := range b.Instrs {
					fa, ok := in.(*ssa.FieldAddr)
					if !ok {
						continue
					}
					stt := deref(fa.X.Type())
					if namedStructKey(stt) != tname {
						continue
					}
					if stt.Underlying().(*types.Struct).Field(fa.Field).Name() != fname {
						continue
					}
					refs := fa.Referrers()
					if refs == nil {
						continue
					}
					for _, r := range *refs {
						switch r := r.(type) {
						case *ssa.DebugRef:
						case *ssa.Store:
							if r.Addr == fa {
								out = append(out, fieldAccess{fn: fn, fa: fa, store: true, in: r})
							} else {
								out = append(out, fieldAccess{fn: fn, fa: fa, in: r, other: true})
							}
						case *ssa.UnOp:
							out = append(out, fieldAccess{fn: fn, fa: fa, in: r})
						default:
							out = append(out, fieldAccess{fn: fn, fa: fa, in: r, other: true})
						}
					}
				}
			}
		}
	}
	return out
}

func rootFn(fn *ssa.Function) *ssa.Function {
	for fn.Parent() != nil {
		fn = fn.Parent()
	}
	return fn
}

func dominatesInstr(a ssa.Instruction, b ssa.Instruction) bool {
	ba, bb := a.Block(), b.Block()
	if ba == bb {
		for _, in := range ba.Instrs {
			if in == a {
				return true
			}
			if in == b {
				return false
			}
		}
		return false
	}
	return ba.Dominates(bb)
}

func (ld *Loaded) protectScan(fd *FieldDecl) *FuncResult {
	o := &Obligation{Name: shortStem(fd.Pkg, fd.Type) + "#protect:" + fd.Field, Kind: "protect", Static: true, Props: fd.Props}
	if fd.Kind == "storesconst" || fd.Kind == "mapvalues" || fd.Kind == "syncmapvalues" {
		o.Name += "." + fd.Kind
	}
	tname := fd.Pkg + "." + fd.Type
	accs := ld.accessesOf(tname, fd.Field)
	var bad []string
	note := func(a fieldAccess, why string) {
		bad = append(bad, fmt.Sprintf("%s in %s: %s", why, a.fn.RelString(typesPkgOf(a.fn)), a.in))
	}
	args := strings.Fields(fd.Arg)
	switch fd.Kind {
	case "atomic":
		for _, a := range accs {
			ok := false
			if c, isCall := a.in.(ssa.CallInstruction); isCall && a.other {
				if sc := c.Common().StaticCallee(); sc != nil && sc.Pkg != nil && sc.Pkg.Pkg.Path() == "sync/atomic" {
					ok = true
				}
			}
			if !ok && rootCtor(a.fn, nil) {
				ok = false
			}
			if !ok {
				note(a, "non-atomic access")
			}
		}
	case "owned_by":
		allowed := map[string]bool{}
		for _, f := range strings.Split(strings.Join(args, " "), ",") {
			if f = strings.TrimSpace(f); f != "" {
				allowed[qualifyFuncName(f, fd.Pkg)] = true
			}
		}
		for _, a := range accs {
			if !ld.ownedContext(rootFn(a.fn), allowed, 0) {
				note(a, "access outside the owning functions")
			}
		}
	case "guarded_by":
		if len(args) == 0 {
			o.Detail = "guarded_by needs a mutex field"
			break
		}
		mu := args[0]
		for _, a := range accs {
			if ctorOf(ld, fd, a.fn) {
				continue
			}
			mode := ld.lockHeldAt(fd, a, mu)
			switch {
			case mode == "":
				note(a, "access without holding "+mu)
			case a.store && mode == "r":
				note(a, "write while holding only the read lock of "+mu)
			}
			// a map read from the guarded field is the shared object itself: using it after the
			// lock is released is an unprotected access - unless the field was given a fresh map in
			// the same critical section (the old map was swapped out and is now private)
			if ldv, isLoad := a.in.(*ssa.UnOp); isLoad && !a.store {
				if _, isMap := ldv.Type().Underlying().(*types.Map); isMap && ldv.Referrers() != nil {
					swapped := false
					for _, b := range a.fn.Blocks {
						for _, in := range b.Instrs {
							st, ok := in.(*ssa.Store)
							if !ok {
								continue
							}
							fa2, ok := st.Addr.(*ssa.FieldAddr)
							if !ok || fa2.Field != a.fa.Field || !sameBase(fa2.X, a.fa.X) {
								continue
							}
							if _, fresh := st.Val.(*ssa.MakeMap); fresh && dominatesInstr(ldv, st) && lockStateAt(a.fn, st, mu, a.fa.X) == 2 {
								swapped = true
							}
						}
					}
					for _, r := range *ldv.Referrers() {
						switch r.(type) {
						case *ssa.DebugRef, *ssa.Store:
							continue
						}
						if lockStateAt(a.fn, r, mu, a.fa.X) == 0 && !swapped {
							note(a, "map read from the guarded field is used after the lock is released: "+r.String())
						}
					}
				}
			}
		}
	case "published_by":
		// args: <publishing call name> <done channel method>
		for _, a := range accs {
			if ctorOf(ld, fd, a.fn) {
				continue
			}
			if a.store {
				ok := false
				for _, b := range a.fn.Blocks {
					for _, in := range b.Instrs {
						if c, isCall := in.(ssa.CallInstruction); isCall && !c.Common().IsInvoke() {
							if strings.HasSuffix(describe(c.Common().Value), "."+args[0]) && dominatesInstr(a.in, in) {
								ok = true
							}
						}
					}
				}
				if !ok {
					note(a, "store not followed by the publishing call "+args[0])
				}
				continue
			}
			// load: dominated by a receive from the Done channel
			ok := false
			for _, b := range a.fn.Blocks {
				for _, in := range b.Instrs {
					switch r := in.(type) {
					case *ssa.Select:
						for _, s := range r.States {
							if s.Dir == types.RecvOnly && strings.HasSuffix(describe(s.Chan), ".ctx.Done()") && dominatesInstr(in, a.in) {
								ok = true
							}
						}
					case *ssa.UnOp:
						if r.Op.String() == "<-" && strings.HasSuffix(describe(r.X), ".ctx.Done()") && dominatesInstr(in, a.in) {
							ok = true
						}
					}
				}
			}
			if !ok {
				note(a, "read without a preceding receive from ctx.Done() (no happens-before with the store in Close)")
			}
		}
	case "syncvalue":
		// the field is a value of a type from package sync (Mutex, RWMutex, Map, Pool, ...): it is
		// only ever the receiver of that type's methods
		for _, a := range accs {
			if !isSyncReceiver(a.in, a.fa) {
				note(a, "sync value used other than as the receiver of its methods")
			}
		}
	case "syncmapvalues":
		// a sync.Map field that only ever receives values of one named type: every storing method
		// (Store, LoadOrStore, Swap, CompareAndSwap) gets a value converted from that type
		want := strings.TrimSpace(fd.Arg)
		for _, a := range accs {
			c, isCall := a.in.(ssa.CallInstruction)
			if !isCall || !isSyncReceiver(a.in, a.fa) {
				continue // other uses are the business of the syncvalue clause
			}
			sc := c.Common().StaticCallee()
			idx := map[string]int{"Store": 2, "LoadOrStore": 2, "Swap": 2, "CompareAndSwap": 3}[sc.Name()]
			if idx == 0 || idx >= len(c.Common().Args) {
				continue
			}
			mi, ok := c.Common().Args[idx].(*ssa.MakeInterface)
			if !ok {
				note(a, sc.Name()+" stores a value of unknown dynamic type")
				continue
			}
			got := types.TypeString(mi.X.Type(), func(p *types.Package) string {
				if p.Path() == fd.Pkg {
					return ""
				}
				return p.Path()
			})
			if got != want {
				note(a, sc.Name()+" stores a "+got+", not a "+want)
			}
		}
	case "elemsync":
		// a slice of sync values: the slice is only indexed (or measured), and each element address
		// is only the receiver of the element type's methods - outside the constructors
		for _, a := range accs {
			if ctorOf(ld, fd, a.fn) {
				continue
			}
			ld1, isLoad := a.in.(*ssa.UnOp)
			if !isLoad || a.store || a.other {
				note(a, "slice of sync values stored or its address taken")
				continue
			}
			for _, r := range *ld1.Referrers() {
				switch r := r.(type) {
				case *ssa.DebugRef:
				case *ssa.IndexAddr:
					for _, rr := range *r.Referrers() {
						if _, dbg := rr.(*ssa.DebugRef); dbg {
							continue
						}
						if !isSyncReceiver(rr, r) {
							note(a, "element used other than as the receiver of its methods: "+rr.String())
						}
					}
				case *ssa.Call:
					if b, ok := r.Call.Value.(*ssa.Builtin); !ok || (b.Name() != "len" && b.Name() != "cap") {
						note(a, "slice of sync values passed on: "+r.String())
					}
				default:
					note(a, "slice of sync values used by "+r.String())
				}
			}
		}
	case "storesconst":
		// monotone flag: every store outside the constructors stores the given constant
		for _, a := range accs {
			if !a.store && !a.other {
				continue
			}
			st, isStore := a.in.(*ssa.Store)
			if !isStore || a.other {
				note(a, "address of the field escapes")
				continue
			}
			if c, ok := st.Val.(*ssa.Const); !ok || c.Value == nil || c.Value.ExactString() != strings.TrimSpace(fd.Arg) {
				note(a, "stores a value other than "+fd.Arg)
			}
		}
	case "mapvalues":
		// the content invariant travels with the map object: the field only ever receives fresh maps
		for _, a := range accs {
			if !a.store && !a.other {
				continue
			}
			st, isStore := a.in.(*ssa.Store)
			if !isStore || a.other {
				note(a, "address of the map field escapes")
				continue
			}
			if _, ok := st.Val.(*ssa.MakeMap); !ok {
				note(a, "stores a map that is not freshly made")
			}
		}
	case "unprotected":
	}
	sort.Strings(bad)
	o.StaticOK = len(bad) == 0
	o.Detail = fmt.Sprintf("field %s.%s %s %s: %d accesses checked", fd.Type, fd.Field, fd.Kind, fd.Arg, len(accs))
	if len(bad) > 0 {
		o.Detail += "; FAILS: " + strings.Join(bad, " | ")
	}
	return &FuncResult{Key: "static:" + o.Name, Obls: []*Obligation{o}}
}

func rootCtor(fn *ssa.Function, _ interface{}) bool { return false }

// ctorOf: is fn (or its enclosing function) a declared constructor of the field's type
// ("field T.* constructed_by ..." or an "immutable" clause naming it)?
func ctorOf(ld *Loaded, fd *FieldDecl, fn *ssa.Function) bool {
	k := fnKey(rootFn(fn))
	for _, o := range ld.cs.Fields {
		if o.Pkg == fd.Pkg && o.Type == fd.Type && o.Kind == "constructed_by" {
			for _, c := range strings.Split(o.Arg, ",") {
				if qualifyFuncName(strings.TrimSpace(c), fd.Pkg) == k {
					return true
				}
			}
		}
	}
	return false
}

// lock dataflow ---------------------------------------------------------------------------

// lockOp classifies a call as an operation on mutex field mu of the object `base` (an SSA value,
// compared modulo loads of the same variable cell): +2 Lock, +1 RLock, -1 unlock, 0 none.
func lockOp(in ssa.Instruction, mu string, base ssa.Value) int {
	c, ok := in.(*ssa.Call)
	if !ok {
		return 0
	}
	sc := c.Call.StaticCallee()
	if sc == nil || len(c.Call.Args) == 0 {
		return 0
	}
	fa, ok := c.Call.Args[0].(*ssa.FieldAddr)
	if !ok {
		return 0
	}
	st, ok := deref(fa.X.Type()).Underlying().(*types.Struct)
	if !ok || st.Field(fa.Field).Name() != mu || !sameBase(fa.X, base) {
		return 0
	}
	switch fnKey(sc) {
	case "(*sync.Mutex).Lock", "(*sync.RWMutex).Lock":
		return 2
	case "(*sync.RWMutex).RLock":
		return 1
	case "(*sync.Mutex).Unlock", "(*sync.RWMutex).Unlock", "(*sync.RWMutex).RUnlock":
		return -1
	}
	return 0
}

// sameBase: two SSA values denote the same object: identical, or loads of the same variable cell
// (an Alloc, parameter cell or free variable that is stored at most once).
func sameBase(a, b ssa.Value) bool {
	if a == b {
		return true
	}
	ua, ok1 := a.(*ssa.UnOp)
	ub, ok2 := b.(*ssa.UnOp)
	if ok1 && ok2 && ua.Op == token.MUL && ub.Op == token.MUL && ua.X == ub.X {
		return storedOnce(ua.X)
	}
	return false
}

func storedOnce(cell ssa.Value) bool {
	refs := cell.Referrers()
	if refs == nil {
		return true
	}
	n := 0
	for _, r := range *refs {
		if st, ok := r.(*ssa.Store); ok && st.Addr == cell {
			n++
		}
	}
	return n <= 1
}

// lockStateAt runs a forward dataflow over fn (0 = not held, 1 = read-held, 2 = write-held; meet =
// minimum over predecessors) and returns the state just before instruction at.
func lockStateAt(fn *ssa.Function, at ssa.Instruction, mu string, base ssa.Value) int {
	const top = 3
	in := make([]int, len(fn.Blocks))
	out := make([]int, len(fn.Blocks))
	for i := range in {
		in[i], out[i] = top, top
	}
	transfer := func(b *ssa.BasicBlock, s int, stop ssa.Instruction) (int, bool) {
		for _, ins := range b.Instrs {
			if ins == stop {
				return s, true
			}
			switch lockOp(ins, mu, base) {
			case 2:
				s = 2
			case 1:
				if s < 1 {
					s = 1
				}
			case -1:
				s = 0
			}
		}
		return s, false
	}
	for changed := true; changed; {
		changed = false
		for i, b := range fn.Blocks {
			s := top
			if i == 0 {
				s = 0
			}
			for _, p := range b.Preds {
				if out[p.Index] < s {
					s = out[p.Index]
				}
			}
			o := s
			if s != top {
				o, _ = transfer(b, s, nil)
			}
			if s != in[i] || o != out[i] {
				in[i], out[i] = s, o
				changed = true
			}
		}
	}
	b := at.Block()
	if in[b.Index] == top {
		return 0
	}
	s, _ := transfer(b, in[b.Index], at)
	return s
}

// lockHeldAt: "" | "r" | "w" - how the mutex field mu of the SAME object is held at the access.
// Either the enclosing function holds it on every path to the access, or the access sits in an
// anonymous function that is only ever passed to a declared (and checked) lock wrapper whose
// receiver is the object accessed.
func (ld *Loaded) lockHeldAt(fd *FieldDecl, a fieldAccess, mu string) string {
	modes := []string{"", "r", "w"}
	if m := lockStateAt(a.fn, a.in, mu, a.fa.X); m > 0 {
		return modes[m]
	}
	if a.fn.Parent() == nil {
		return ""
	}
	// the base inside the closure must be a load of a free variable
	ld1, ok := a.fa.X.(*ssa.UnOp)
	if !ok {
		return ""
	}
	fv, ok := ld1.X.(*ssa.FreeVar)
	if !ok || !storedOnceFree(a.fn, fv) {
		return ""
	}
	fvIdx := -1
	for i, v := range a.fn.FreeVars {
		if v == fv {
			fvIdx = i
		}
	}
	parent := a.fn.Parent()
	best := 3
	found := false
	for _, b := range parent.Blocks {
		for _, in := range b.Instrs {
			mc, ok := in.(*ssa.MakeClosure)
			if !ok || mc.Fn != a.fn {
				continue
			}
			cell := mc.Bindings[fvIdx]
			if !storedOnce(cell) {
				return ""
			}
			refs := mc.Referrers()
			if refs == nil {
				return ""
			}
			for _, r := range *refs {
				if _, isDbg := r.(*ssa.DebugRef); isDbg {
					continue
				}
				call, ok := r.(*ssa.Call)
				if !ok || call.Call.StaticCallee() == nil || len(call.Call.Args) < 2 {
					return ""
				}
				// receiver of the wrapper = the object whose field is accessed
				recv, ok := call.Call.Args[0].(*ssa.UnOp)
				if !ok || recv.X != cell {
					return ""
				}
				wk := fnKey(call.Call.StaticCallee())
				w := 0
				for _, lw := range ld.cs.Fields {
					if lw.Kind == "lockwrapper" && qualifyFuncName(lw.Type, lw.Pkg) == wk {
						f := strings.Fields(lw.Arg)
						if len(f) == 2 && f[0] == mu {
							if f[1] == "w" {
								w = 2
							} else {
								w = 1
							}
						}
					}
				}
				if w == 0 {
					return ""
				}
				found = true
				if w < best {
					best = w
				}
			}
		}
	}
	if found {
		return modes[best]
	}
	return ""
}

func storedOnceFree(fn *ssa.Function, fv *ssa.FreeVar) bool {
	refs := fv.Referrers()
	if refs == nil {
		return true
	}
	for _, r := range *refs {
		if st, ok := r.(*ssa.Store); ok && st.Addr == fv {
			return false
		}
	}
	return true
}

// lockWrapperScan checks a declared lock wrapper: its function parameter is only ever called, and
// every call happens while the receiver's mutex is held in the declared mode.
func (ld *Loaded) lockWrapperScan(lw *FieldDecl) *FuncResult {
	key := qualifyFuncName(lw.Type, lw.Pkg)
	clean := strings.NewReplacer("(*", "", ")", "").Replace(lw.Type)
	o := &Obligation{Name: shortStem(lw.Pkg, clean) + "#protect:holds_lock", Kind: "protect", Static: true, Props: lw.Props}
	f := strings.Fields(lw.Arg)
	var bad []string
	fns := ld.fnByKey[key]
	if len(fns) == 0 || len(f) != 2 {
		bad = append(bad, "function not found")
	}
	for _, fn := range fns {
		if len(fn.Params) != 2 {
			bad = append(bad, "expected (receiver, func) parameters")
			continue
		}
		recv, fp := fn.Params[0], fn.Params[1]
		want := 1
		if f[1] == "w" {
			want = 2
		}
		calls := 0
		for _, r := range *fp.Referrers() {
			switch r := r.(type) {
			case *ssa.DebugRef:
			case *ssa.Call:
				if r.Call.Value != fp {
					bad = append(bad, "function argument passed on: "+r.String())
					continue
				}
				calls++
				if got := lockStateAt(fn, r, f[0], recv); got < want {
					bad = append(bad, fmt.Sprintf("callback invoked with lock state %d, declared %s", got, f[1]))
				}
			default:
				bad = append(bad, "function argument escapes: "+r.String())
			}
		}
		if calls == 0 {
			bad = append(bad, "callback never called")
		}
	}
	o.StaticOK = len(bad) == 0
	o.Detail = fmt.Sprintf("%s calls its argument only while holding %s (%s)", lw.Type, f[0], f[1])
	if len(bad) > 0 {
		o.Detail += "; FAILS: " + strings.Join(bad, " | ")
	}
	return &FuncResult{Key: "static:" + o.Name, Obls: []*Obligation{o}}
}

// isSyncReceiver: instruction in uses addr only as the receiver of a method of package sync.
func isSyncReceiver(in ssa.Instruction, addr ssa.Value) bool {
	c, ok := in.(ssa.CallInstruction)
	if !ok {
		return false
	}
	cc := c.Common()
	sc := cc.StaticCallee()
	if sc == nil || sc.Pkg == nil || (sc.Pkg.Pkg.Path() != "sync" && sc.Pkg.Pkg.Path() != "sync/atomic") || len(cc.Args) == 0 || cc.Args[0] != addr {
		return false
	}
	for _, a := range cc.Args[1:] {
		if a == addr {
			return false
		}
	}
	return true
}

var protectKinds = map[string]bool{"atomic": true, "immutable": true, "guarded_by": true, "owned_by": true,
	"published_by": true, "syncvalue": true, "unprotected": true}

// coverageScan: every field of a struct declared "field T.* covered" for property id has a protection clause
// (a field added later without a discipline is reported).
func (ld *Loaded) coverageScans(id string) []*FuncResult {
	type tk struct{ pkg, typ string }
	seen := map[tk]map[string]bool{}
	var order []tk
	wanted := map[tk]bool{}
	for _, fd := range ld.cs.Fields {
		if fd.Kind == "covered" && fd.Field == "*" {
			if ld.inPlan(fd) {
				wanted[tk{fd.Pkg, fd.Type}] = true
			}
			for _, p := range fd.Props {
				if p == id {
					wanted[tk{fd.Pkg, fd.Type}] = true
				}
			}
		}
	}
	for _, fd := range ld.cs.Fields {
		// every protection clause of a wanted type counts, whatever property it is tagged with
		if !protectKinds[fd.Kind] || fd.Field == "*" {
			continue
		}
		k := tk{fd.Pkg, fd.Type}
		if !wanted[k] {
			continue
		}
		if seen[k] == nil {
			seen[k] = map[string]bool{}
			order = append(order, k)
		}
		seen[k][fd.Field] = true
	}
	var out []*FuncResult
	for _, k := range order {
		o := &Obligation{Name: shortStem(k.pkg, k.typ) + "#protect:coverage", Kind: "protect", Static: true, Props: []string{id}}
		var missing, inferred []string
		n := 0
		for _, p := range ld.prog.AllPackages() {
			if p.Pkg.Path() != k.pkg {
				continue
			}
			obj := p.Pkg.Scope().Lookup(k.typ)
			if obj == nil {
				missing = append(missing, "type not found")
				continue
			}
			st, ok := obj.Type().Underlying().(*types.Struct)
			if !ok {
				continue
			}
			have := map[string]bool{}
			for i := 0; i < st.NumFields(); i++ {
				n++
				have[st.Field(i).Name()] = true
				if !seen[k][st.Field(i).Name()] {
					// a field without a clause is accepted if one of the disciplines can be
					// inferred for it from its uses (a counter only touched through sync/atomic, a
					// configuration field only stored by the constructors, a sync value, a field
					// only accessed under one of the struct's mutexes): it is reported only when
					// none fits
					if d := ld.inferDiscipline(k.pkg, k.typ, st, i); d != "" {
						inferred = append(inferred, st.Field(i).Name()+": "+d)
						continue
					}
					missing = append(missing, st.Field(i).Name())
				}
			}
			for f := range seen[k] {
				if !have[f] {
					missing = append(missing, f+" (clause for a field the struct does not have)")
				}
			}
		}
		o.StaticOK = len(missing) == 0
		o.Detail = fmt.Sprintf("all %d fields of %s carry a protection clause", n, k.typ)
		if len(inferred) > 0 {
			o.Detail += " (inferred from the uses: " + strings.Join(inferred, ", ") + ")"
		}
		if len(missing) > 0 {
			o.Detail = fmt.Sprintf("fields of %s without a protection clause: %s", k.typ, strings.Join(missing, ", "))
		}
		out = append(out, &FuncResult{Key: "static:" + o.Name, Obls: []*Obligation{o}})
	}
	return out
}

// inferDiscipline tries the protection disciplines on a field that has no clause and returns the
// first one its uses satisfy ("" if none).
func (ld *Loaded) inferDiscipline(pkg, typ string, st *types.Struct, i int) string {
	field := st.Field(i).Name()
	try := func(kind, arg string) bool {
		fd := &FieldDecl{Pkg: pkg, Type: typ, Field: field, Kind: kind, Arg: arg}
		var r *FuncResult
		if kind == "immutable" {
			r = ld.immutableScan(fd)
		} else {
			r = ld.protectScan(fd)
		}
		for _, o := range r.Obls {
			if !o.StaticOK {
				return false
			}
		}
		return true
	}
	if nt, ok := st.Field(i).Type().(*types.Named); ok && nt.Obj().Pkg() != nil {
		if pp := nt.Obj().Pkg().Path(); (pp == "sync" || pp == "sync/atomic") && try("syncvalue", "") {
			return "syncvalue"
		}
	}
	if len(ld.accessesOf(pkg+"."+typ, field)) == 0 {
		return "unused"
	}
	if try("atomic", "") {
		return "atomic"
	}
	ctors := map[string]bool{}
	for _, o := range ld.cs.Fields {
		if o.Pkg == pkg && o.Type == typ && (o.Kind == "constructed_by" || o.Kind == "immutable") {
			for _, c := range strings.Split(o.Arg, ",") {
				if c = strings.TrimSpace(c); c != "" {
					ctors[c] = true
				}
			}
		}
	}
	if len(ctors) == 0 {
		// no constructor declared for the type: the functions that allocate it
		for _, fns := range ld.fnByKey {
			for _, fn := range fns {
				for _, b := range fn.Blocks {
					for _, in := range b.Instrs {
						if al, ok := in.(*ssa.Alloc); ok && namedStructKey(deref(al.Type())) == pkg+"."+typ {
							ctors[strings.TrimPrefix(fnKey(rootFn(fn)), pkg+".")] = true
						}
					}
				}
			}
		}
	}
	if len(ctors) > 0 {
		// a function that stores the field only into an object it has just obtained from a declared
		// constructor (a wrapping constructor such as NewNamedX calling NewX) is a constructor too
		tname := pkg + "." + typ
		cand := map[string]bool{}
		okFn := map[string]bool{}
		for _, a := range ld.accessesOf(tname, field) {
			if !a.store {
				continue
			}
			k := fnKey(rootFn(a.fn))
			if ctors[strings.TrimPrefix(k, pkg+".")] || ctors[k] {
				continue
			}
			if _, seen := okFn[k]; !seen {
				okFn[k] = true
			}
			if a.fn != rootFn(a.fn) {
				// a store inside a closure: fine if the enclosing function returns the same
				// function type as one of the declared constructors does (a further functional
				// option next to WithX: such closures are applied where the others are)
				if !ld.siblingOption(rootFn(a.fn), pkg, ctors) {
					okFn[k] = false
				}
			} else if !freshFromCtor(a.fa.X, pkg, ctors) {
				okFn[k] = false
			}
			cand[k] = true
		}
		var cl []string
		for c := range ctors {
			cl = append(cl, c)
		}
		for k := range cand {
			if okFn[k] {
				cl = append(cl, strings.TrimPrefix(k, pkg+"."))
			}
		}
		sort.Strings(cl)
		if try("immutable", strings.Join(cl, ", ")) {
			return "immutable"
		}
	}
	for j := 0; j < st.NumFields(); j++ {
		if nt, ok := st.Field(j).Type().(*types.Named); ok && nt.Obj().Pkg() != nil && nt.Obj().Pkg().Path() == "sync" && (nt.Obj().Name() == "Mutex" || nt.Obj().Name() == "RWMutex") {
			if try("guarded_by", st.Field(j).Name()) {
				return "guarded_by " + st.Field(j).Name()
			}
		}
	}
	return ""
}

// siblingOption: fn returns a value of a named function type, and so does one of the declared
// constructors (with the identical type).
func (ld *Loaded) siblingOption(fn *ssa.Function, pkg string, ctors map[string]bool) bool {
	res := fn.Signature.Results()
	if res.Len() != 1 {
		return false
	}
	nt, ok := res.At(0).Type().(*types.Named)
	if !ok {
		return false
	}
	if _, isFunc := nt.Underlying().(*types.Signature); !isFunc {
		return false
	}
	for c := range ctors {
		for _, f := range ld.fnByKey[qualifyFuncName(c, pkg)] {
			if r := f.Signature.Results(); r.Len() == 1 && types.Identical(r.At(0).Type(), nt) {
				return true
			}
		}
	}
	return false
}

// freshFromCtor: the value is the result of a call of one of the constructors in the same function
// (possibly through a type assertion or conversion), i.e. an object nobody else knows yet.
func freshFromCtor(v ssa.Value, pkg string, ctors map[string]bool) bool {
	for i := 0; i < 6; i++ {
		switch t := v.(type) {
		case *ssa.TypeAssert:
			v = t.X
		case *ssa.ChangeInterface:
			v = t.X
		case *ssa.ChangeType:
			v = t.X
		case *ssa.Extract:
			v = t.Tuple
		case *ssa.Call:
			sc := t.Call.StaticCallee()
			if sc == nil {
				return false
			}
			k := fnKey(sc)
			return ctors[k] || ctors[strings.TrimPrefix(k, pkg+".")]
		default:
			return false
		}
	}
	return false
}

// typesPkgOf: the package of a function, also for instantiations of generic functions and
// anonymous functions inside them (whose Pkg is nil).
func typesPkgOf(fn *ssa.Function) *types.Package {
	for f := fn; f != nil; f = f.Parent() {
		if f.Pkg != nil {
			return f.Pkg.Pkg
		}
		if o := f.Origin(); o != nil && o.Pkg != nil {
			return o.Pkg.Pkg
		}
	}
	return nil
}

// ownedContext: fn is one of the owning functions, or an unexported helper that is only ever
// called (statically, never passed around as a value) from functions that are themselves owned
// contexts - a helper extracted from an owner runs under the owner's token.
func (ld *Loaded) ownedContext(fn *ssa.Function, allowed map[string]bool, depth int) bool {
	if allowed[fnKey(fn)] {
		return true
	}
	if depth > 3 || fn.Object() == nil || fn.Object().Exported() {
		return false
	}
	refs := 0
	for _, fs := range ld.fnByKey {
		for _, g := range fs {
			for _, b := range g.Blocks {
				for _, in := range b.Instrs {
					for _, op := range in.Operands(nil) {
						if *op != ssa.Value(fn) {
							continue
						}
						refs++
						ci, isCall := in.(ssa.CallInstruction)
						if !isCall || ci.Common().Value != ssa.Value(fn) {
							return false // used as a value
						}
						if _, isGo := in.(*ssa.Go); isGo {
							return false
						}
						if !ld.ownedContext(rootFn(g), allowed, depth+1) {
							return false
						}
					}
				}
			}
		}
	}
	return refs > 0
}
