package main

// Resolution of type names written in contracts.

import (
	"go/ast"
	"go/parser"
	"go/types"
	"strings"

	"golang.org/x/tools/go/ssa"
)

func (x *Exec) findTypesPkg(path string) *types.Package {
	for _, p := range x.prog.AllPackages() {
		if p.Pkg.Path() == path {
			return p.Pkg
		}
	}
	return nil
}

func (x *Exec) tryResolveType(pkg, s string) (t types.Type) {
	defer func() {
		if r := recover(); r != nil {
			t = nil
		}
	}()
	return x.resolveType(pkg, s)
}

func (x *Exec) resolveType(pkg, s string) types.Type {
	s = strings.TrimSpace(s)
	// fully qualified "path/to/pkg.Name" (contains a slash): split manually
	if strings.Contains(s, "/") && !strings.ContainsAny(s, "[]*(") {
		i := strings.LastIndex(s, ".")
		if p := x.findTypesPkg(s[:i]); p != nil {
			if o := p.Scope().Lookup(s[i+1:]); o != nil {
				return o.Type()
			}
		}
		engineErr("cannot resolve type %q", s)
	}
	if strings.HasPrefix(s, "*") && strings.Contains(s, "/") {
		return types.NewPointer(x.resolveType(pkg, s[1:]))
	}
	e, err := parser.ParseExpr(s)
	if err != nil {
		engineErr("cannot parse type %q: %v", s, err)
	}
	return x.resolveTypeExpr(pkg, e)
}

func (x *Exec) resolveTypeExpr(pkg string, e ast.Expr) types.Type {
	switch n := e.(type) {
	case *ast.ParenExpr:
		return x.resolveTypeExpr(pkg, n.X)
	case *ast.StarExpr:
		return types.NewPointer(x.resolveTypeExpr(pkg, n.X))
	case *ast.ArrayType:
		if n.Len == nil {
			return types.NewSlice(x.resolveTypeExpr(pkg, n.Elt))
		}
		if bl, ok := n.Len.(*ast.BasicLit); ok {
			var k int64
			for _, c := range bl.Value {
				k = k*10 + int64(c-'0')
			}
			return types.NewArray(x.resolveTypeExpr(pkg, n.Elt), k)
		}
	case *ast.InterfaceType:
		return types.NewInterfaceType(nil, nil)
	case *ast.MapType:
		return types.NewMap(x.resolveTypeExpr(pkg, n.Key), x.resolveTypeExpr(pkg, n.Value))
	case *ast.Ident:
		for _, sc := range []*ssa.Function{x.tscope, x.curFn} {
			if sc == nil {
				continue
			}
			if o := sc.Origin(); o != nil {
				tps := o.TypeParams()
				for i := 0; i < tps.Len(); i++ {
					if tps.At(i).Obj().Name() == n.Name && i < len(sc.TypeArgs()) {
						return sc.TypeArgs()[i]
					}
				}
			}
		}
		if o := types.Universe.Lookup(n.Name); o != nil {
			if _, ok := o.(*types.TypeName); ok {
				return o.Type()
			}
		}
		if p := x.findTypesPkg(pkg); p != nil {
			if o := p.Scope().Lookup(n.Name); o != nil {
				if _, ok := o.(*types.TypeName); ok {
					return o.Type()
				}
			}
		}
		// unique type name across loaded repo packages
		var found types.Type
		for _, p := range x.prog.AllPackages() {
			if !strings.HasPrefix(p.Pkg.Path(), "github.com/go-netty/") {
				continue
			}
			if o := p.Pkg.Scope().Lookup(n.Name); o != nil {
				if _, ok := o.(*types.TypeName); ok {
					found = o.Type()
				}
			}
		}
		if found != nil {
			return found
		}
		engineErr("cannot resolve type name %q (package %s)", n.Name, pkg)
	case *ast.SelectorExpr:
		id, ok := n.X.(*ast.Ident)
		if !ok {
			break
		}
		var tp *types.Package
		if cur := x.findTypesPkg(pkg); cur != nil {
			for _, imp := range cur.Imports() {
				if imp.Name() == id.Name {
					tp = imp
				}
			}
		}
		if tp == nil {
			for _, p := range x.prog.AllPackages() {
				if p.Pkg.Name() == id.Name {
					tp = p.Pkg
					break
				}
			}
		}
		if tp != nil {
			if o := tp.Scope().Lookup(n.Sel.Name); o != nil {
				return o.Type()
			}
		}
		engineErr("cannot resolve type %s.%s", id.Name, n.Sel.Name)
	case *ast.IndexExpr:
		// generic instantiation: not needed in contracts; resolve the generic's origin
		return x.resolveTypeExpr(pkg, n.X)
	}
	engineErr("unsupported type expression in contract")
	return nil
}
