package main

// Obligations and their SMT queries.

import (
	"fmt"
	"go/types"
	"sort"
	"strings"
)

type Query struct {
	SMT     string
	Desc    string
	Path    int
	Verdict string // unsat, sat, unknown, timeout, error
	Solver  string
	Secs    float64
	Model   string
	Cover   bool
	Before  bool     // call-site covers: the state BEFORE the callee's posts were assumed
	Values  []string // terms whose values to fetch on sat
	Inputs  map[string]string
}

type Obligation struct {
	Name      string // <stem>#<kind>:<label>
	Kind      string
	Func      string
	Props     []string
	Queries   []*Query
	ExpectSat bool // cover obligations: at least one query must be sat
	Static    bool // decided by a scan, no solver
	StaticOK  bool
	Detail    string
	Trivial   int // goals that were syntactically true

	Discharged bool
	Failed     *Query
}

func (x *Exec) obligation(name, kind string) *Obligation {
	full := x.cur.Short + "#" + name
	if x.curSuffix != "" {
		full = x.cur.Short + x.curSuffix + "#" + name
	}
	o := x.obls[full]
	if o == nil {
		o = &Obligation{Name: full, Kind: kind, Func: x.cur.Key, Props: x.cur.Props}
		x.obls[full] = o
		x.oblOrder = append(x.oblOrder, full)
	}
	return o
}

// emit records the proof obligation "path facts of st imply goal".
func (x *Exec) emit(st *State, name, kind string, goal Tm, desc string) {
	o := x.obligation(name, kind)
	if goal.S == "true" {
		o.Trivial++
		return
	}
	q := &Query{Desc: desc, Path: x.paths}
	q.SMT = x.render(st, []string{fmt.Sprintf("(assert (not %s))", goal.S)})
	q.Values = x.inputTerms
	o.Queries = append(o.Queries, q)
	if len(q.SMT) > maxQueryBytes {
		engineErr("query for %s exceeds the size cap (%d bytes)", o.Name, len(q.SMT))
	}
}

// emitCover records a reachability check (expected sat).
func (x *Exec) emitCover(st *State, name string, desc string) {
	x.emitCoverQ(st, name, desc, false)
}

func (x *Exec) emitCoverQ(st *State, name string, desc string, before bool) {
	o := x.obligation(name, "cover")
	o.ExpectSat = true
	q := &Query{Desc: desc, Path: x.paths, Cover: true, Before: before}
	// reachability is checked without the quantified axioms of pure functions (their
	// consistency is the business of those functions' own obligations); this keeps
	// "sat" answers cheap.
	ax := x.axioms
	x.axioms = nil
	q.SMT = x.render(st, nil)
	x.axioms = ax
	o.Queries = append(o.Queries, q)
}

const maxQueryBytes = 1 << 20

func (x *Exec) render(st *State, tail []string) string {
	var b strings.Builder
	b.WriteString("(set-option :produce-models true)\n(set-logic ALL)\n")
	for _, k := range st.heapKeys() {
		fmt.Fprintf(&b, "(declare-fun H0!%s () %s)\n", sanitize(k), st.sorts[k])
	}
	for _, n := range x.ufOrder {
		b.WriteString(x.ufDecls[n])
		b.WriteString("\n")
	}
	// interface implementation facts
	var ikeys []string
	for k := range x.ifaceSet {
		ikeys = append(ikeys, k)
	}
	sort.Strings(ikeys)
	var tids []int
	for id := range x.typeByID {
		tids = append(tids, id)
	}
	sort.Ints(tids)
	for _, ik := range ikeys {
		it := x.ifaceSet[ik]
		uf := "impl_" + sanitize(ik)
		for _, id := range tids {
			t := x.typeByID[id]
			if types.IsInterface(t) {
				continue
			}
			fmt.Fprintf(&b, "(assert (= (%s %d) %v))\n", uf, id, types.Implements(t, it))
		}
		for _, jk := range ikeys {
			if jk == ik {
				continue
			}
			jt := x.ifaceSet[jk]
			// every type implementing I implements J when I's method set includes J's
			if types.Implements(types.NewInterfaceType(methodsOf(it), nil).Complete(), jt) {
				fmt.Fprintf(&b, "(assert (forall ((t Int)) (! (=> (%s t) (impl_%s t)) :pattern ((%s t)))))\n", uf, sanitize(jk), uf)
			}
		}
	}
	// sentinel globals: package-level error values are non-nil and pairwise distinct
	var gs []string
	for g := range x.sentinel {
		gs = append(gs, g)
	}
	sort.Strings(gs)
	for i, g := range gs {
		kt, kv := "G|"+g+"|.typ", "G|"+g+"|.val"
		if _, ok := st.sorts[kt]; !ok {
			continue
		}
		if _, ok := st.sorts[kv]; !ok {
			continue
		}
		fmt.Fprintf(&b, "(assert (not (= (select H0!%s 0) 0)))\n", sanitize(kt))
		for _, g2 := range gs[i+1:] {
			kv2 := "G|" + g2 + "|.val"
			if _, ok := st.sorts[kv2]; !ok {
				continue
			}
			fmt.Fprintf(&b, "(assert (not (= (select H0!%s 0) (select H0!%s 0))))\n", sanitize(kv), sanitize(kv2))
		}
	}
	for _, a := range x.axioms {
		b.WriteString(a)
		b.WriteString("\n")
	}
	for _, c := range st.cmds {
		b.WriteString(c)
		b.WriteString("\n")
	}
	for _, t := range tail {
		b.WriteString(t)
		b.WriteString("\n")
	}
	b.WriteString("(check-sat)\n")
	return b.String()
}

func methodsOf(it *types.Interface) []*types.Func {
	var ms []*types.Func
	for i := 0; i < it.NumMethods(); i++ {
		ms = append(ms, it.Method(i))
	}
	return ms
}

func (x *Exec) noteGlobal(name string, t types.Type) {
	if types.IsInterface(t) {
		x.sentinel[name] = true
	}
}
