package main

// C04 / C08 replays. Oracles from the property statements:
//   C08: a frame decoder delivers a frame that was received completely or raises an exception;
//        truncated frames and end-of-stream are never delivered as messages.
//   C04: an encoder never emits a frame whose length header disagrees with its body.

import "fmt"

func init() {
	registerReplay(`^frame\.fixedLengthCodec\.HandleRead#post:complete_or_error`, replayTruncated("fixed"), nil)
	registerReplay(`^frame\.varintLengthFieldCodec\.HandleRead#post:complete_or_error`, replayTruncated("varint"), nil)
	registerReplay(`^frame\.lengthFieldCodec\.HandleRead#post:complete_or_error`, replayTruncated("lengthfield"), nil)
	registerReplay(`^frame\.lengthFieldPrepender\.HandleWrite#post:header_agrees`, replayPrepender, nil)
}

const replayProbe = `
type probeCtx struct {
	netty.InboundContext
	got []interface{}
}

func (p *probeCtx) HandleRead(m netty.Message) { p.got = append(p.got, m) }

type probeOut struct {
	netty.OutboundContext
	got []interface{}
}

func (p *probeOut) HandleWrite(m netty.Message) { p.got = append(p.got, m) }
`

func replayTruncated(kind string) replayBuilder {
	return func(ld *Loaded, o *Obligation, m map[string]string, smt string) (string, string, bool) {
		var mk, stream, want string
		switch kind {
		case "fixed":
			mk, stream, want = "FixedLengthCodec(8)", `[]byte("abc")`, "8"
		case "varint":
			mk, stream, want = "VarintLengthFieldCodec(1024)", `append([]byte{10}, []byte("abc")...)`, "10"
		default:
			mk, stream, want = "LengthFieldCodec(binary.BigEndian, 1024, 0, 2, 0, 2)", `append([]byte{0, 10}, []byte("abc")...)`, "10"
		}
		src := fmt.Sprintf(`package frame

import (
	"bytes"
	"encoding/binary"
	"io/ioutil"
	"testing"

	"github.com/go-netty/go-netty"
)

var _ = binary.BigEndian
%s
// generated for %s: the stream ends inside the body of a frame
func TestReplayVerif(t *testing.T) {
	codec := %s
	stream := bytes.NewReader(%s) // peer closed after 3 body bytes
	ctx := &probeCtx{}
	var exception interface{}
	func() {
		defer func() { exception = recover() }()
		codec.HandleRead(ctx, stream)
	}()
	if exception != nil || len(ctx.got) == 0 {
		return // rejected: fine
	}
	body, err := ioutil.ReadAll(ctx.got[0].(interface{ Read([]byte) (int, error) }))
	if err == nil && len(body) != %s {
		t.Fatalf("REPLAY-CONFIRMED: truncated frame delivered as a complete message: %%d of %s announced bytes, no error", len(body))
	}
}
`, replayProbe, o.Name, mk, stream, want, want)
		return "codec/frame", src, true
	}
}

func replayPrepender(ld *Loaded, o *Obligation, m map[string]string, smt string) (string, string, bool) {
	src := fmt.Sprintf(`package frame

import (
	"encoding/binary"
	"testing"

	"github.com/go-netty/go-netty"
)
%s
// generated for %s: a 300-byte body with a 1-byte length field
func TestReplayVerif(t *testing.T) {
	enc := LengthFieldPrepender(binary.BigEndian, 1, 0, false)
	out := &probeOut{}
	var exception interface{}
	func() {
		defer func() { exception = recover() }()
		enc.HandleWrite(out, make([]byte, 300))
	}()
	if exception != nil || len(out.got) == 0 {
		return // rejected: fine
	}
	parts := out.got[0].([][]byte)
	if int(parts[0][0]) != len(parts[1]) {
		t.Fatalf("REPLAY-CONFIRMED: emitted a frame whose length header (%%d) disagrees with its body (%%d bytes)", parts[0][0], len(parts[1]))
	}
}
`, replayProbe, o.Name)
	return "codec/frame", src, true
}
