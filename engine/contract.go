package main

// Contract files: structured "//@" comments (DESIGN.md appendix A).
//
//   //@ property C19 C10            following items contribute to these properties
//   //@ func <RelString name>       or: assume func <qualified>, assume iface <qualified Iface.Method>
//   //@   mode bv|int
//   //@   requires <e>
//   //@   ensures [label:] <e>
//   //@   ensures_panic [label:] <e>
//   //@   panics_iff <e>            panics exactly when e (evaluated in the pre-state)
//   //@   may_panic <e>             may panic only when e
//   //@   modifies <item>, ...      heap frame: T.f (field of struct type T), elems(T), ghost g, all
//   //@   loop <n> invariant|decreases|modifies ...
//   //@   inline | trusted | event | pure
//   //@   forall <name> <type>      universally quantified logical variable of the contract
//   //@   param <name> pure         calls of the func-typed parameter are pure (deterministic, no effects)
//   //@ struct <T> invariant <e>    (self refers to a *T)
//   //@ spec func name(a T, b U) R = <e>
//   //@ ghost name(K1, K2) R        versioned ghost map
//   //@ lemma name(v T, ...) <e>
//   //@ field T.f immutable|atomic|guarded_by m|closure Fn(fv = expr)
//
// A line that does not start a new item continues the previous clause.

import (
	"bufio"
	"fmt"
	"go/ast"
	"go/parser"
	"os"
	"regexp"
	"strings"
)

type Clause struct {
	Own   bool // loop invariant used only when the function is verified on its own (not in inlined instances)
	Label string
	Src   string
	Expr  ast.Expr
	Line  int
}

type LoopSpec struct {
	Exit      []Clause // "loop n exit e": e holds whenever control leaves the loop
	Inv       []Clause
	Decr      *Clause
	Modifies  []string
	Preserves []string
	Emits     bool
}

type ParamSpec struct {
	Name string
	Type string
}

type Contract struct {
	Key        string // function key (qualified RelString) or "iface:<qualified>"
	Short      string // obligation-name stem
	Pkg        string // package path the contract was written in (for name resolution)
	File       string
	Line       int
	Props      []string
	Assumed    bool // assume func / assume iface / trusted
	Trusted    bool
	Inline     bool
	Event      bool // calls are recorded in the ghost trace
	Pure       bool
	Mode       string
	Requires   []Clause
	Assumes    []Clause // assumed at entry, not checked at call sites: ASSUMPTION, listed
	Ensures    []Clause
	EnsuresA   []Clause // "ensures_assumed": used at call sites, NOT proved for the function: ASSUMPTION, listed
	EnsuresP   []Clause
	PanicsIff  *Clause
	MayPanic   *Clause
	LocalNames  []string // "locals": the local variables of the function, in declaration order, as the contract names them
	ParamNames  []string // "params": the names this contract uses for receiver and parameters, by position
	ResultNames []string // "results": the names this contract uses for named results, by position
	Modifies   []string
	Preserves  []string // with "modifies all": what is nevertheless unchanged
	HasMod     bool
	Loops      map[int]*LoopSpec
	Foralls    []ParamSpec
	PureParams map[string]bool
	Split      []string
	Covers     []Clause
	After      []AfterClause // ghost assertions placed after calls
	NoFault    bool // claim absence of implicit run-time faults (default true for verified functions)
	Iface      bool
}

// AfterClause: "after <callee> assert [label:] <e>" - a ghost assert-then-assume
// placed after every call of <callee> in the function (result names are bound).
type AfterClause struct {
	Callee string // callee name, or "store:<T.f>", or "exit"
	Cl     Clause
	Inst   bool // "after <callee> instantiate <requires-label>(args...)": sound by construction, no obligation
	// ghost assignment "ghostset g(v1, ..) = e": the ghost map g becomes the function (v1, ..) -> e
	Ghost     string
	GhostVars []string
}

type SpecFunc struct {
	Name   string
	Pkg    string
	Params []ParamSpec
	Result string
	Body   ast.Expr
	Src    string
}

type GhostDecl struct {
	Name   string
	Pkg    string
	Keys   []string
	Result string
}

type StructInv struct {
	Lock  string // "" = object invariant; else: holds whenever mutex field Lock of the object is free
	Type  string // qualified type name
	Pkg   string
	Props []string
	Cl    Clause
}

type Lemma struct {
	Name   string
	Pkg    string
	Props  []string
	Mode   string
	Params []ParamSpec
	Cl     Clause
	Split  []string
}

type FieldDecl struct {
	Type  string
	Field string
	Pkg   string
	Kind  string // immutable, atomic, guarded_by, closure, owned_by, published_by
	Arg   string
	Props []string
}

type Contracts struct {
	Funcs   map[string]*Contract
	Specs   map[string]*SpecFunc // by name (package-qualified lookups fall back to bare name)
	Ghosts  map[string]*GhostDecl
	Invs    []*StructInv
	Lemmas  []*Lemma
	Fields  []*FieldDecl
	Order   []string
	Files   []string
	Assumes []string // keys of assumed contracts, for the evidence
}

func newContracts() *Contracts {
	return &Contracts{Funcs: map[string]*Contract{}, Specs: map[string]*SpecFunc{}, Ghosts: map[string]*GhostDecl{}}
}

var labelRe = regexp.MustCompile(`^([A-Za-z_][A-Za-z0-9_.@\[\] ]*?):\s+(.*)$`)

func parseClause(src string, file string, line int, allowLabel bool) (Clause, error) {
	c := Clause{Src: src, Line: line}
	s := strings.TrimSpace(src)
	if allowLabel {
		if m := labelRe.FindStringSubmatch(s); m != nil && !strings.Contains(m[1], "(") {
			c.Label = strings.ReplaceAll(m[1], " ", "_")
			s = m[2]
		}
	}
	e, err := parser.ParseExpr(s)
	if err != nil {
		return c, fmt.Errorf("%s:%d: cannot parse contract expression %q: %v", file, line, s, err)
	}
	c.Expr = e
	c.Src = s
	return c, nil
}

func parseParams(s string) ([]ParamSpec, error) {
	s = strings.TrimSpace(s)
	if s == "" {
		return nil, nil
	}
	var out []ParamSpec
	depth := 0
	start := 0
	var parts []string
	for i, c := range s {
		switch c {
		case '(', '[':
			depth++
		case ')', ']':
			depth--
		case ',':
			if depth == 0 {
				parts = append(parts, s[start:i])
				start = i + 1
			}
		}
	}
	parts = append(parts, s[start:])
	for _, p := range parts {
		p = strings.TrimSpace(p)
		i := strings.IndexAny(p, " \t")
		if i < 0 {
			return nil, fmt.Errorf("parameter %q needs a type", p)
		}
		out = append(out, ParamSpec{Name: p[:i], Type: strings.TrimSpace(p[i+1:])})
	}
	return out, nil
}

// qualify turns a RelString-style function name written relative to pkg into
// the fully qualified form go/ssa prints with RelString(nil).
func qualifyFuncName(name, pkg string) string {
	if strings.HasPrefix(name, "=") { // "=<fully qualified name>": taken verbatim (other packages)
		return name[1:]
	}
	if pkg == "" {
		return name
	}
	if strings.HasPrefix(name, "(*") {
		return "(*" + pkg + "." + name[2:]
	}
	if strings.HasPrefix(name, "(") {
		return "(" + pkg + "." + name[1:]
	}
	return pkg + "." + name
}

var stemRe = regexp.MustCompile(`\[[^\]]*\]`)

func shortStem(pkg, name string) string {
	p := pkg
	if i := strings.LastIndex(p, "/"); i >= 0 {
		p = p[i+1:]
	}
	if p == "go-netty" {
		p = "netty"
	}
	n := stemRe.ReplaceAllString(name, "")
	n = strings.NewReplacer("(*", "", "(", "", ")", "").Replace(n)
	if p == "" {
		return n
	}
	return p + "." + n
}

// parseFile reads one contract file. pkg is the package path used to qualify
// unqualified names ("" for the engine's own stdlib contract file, where names
// are written fully qualified).
func (cs *Contracts) parseFile(path, pkg string) error {
	f, err := os.Open(path)
	if err != nil {
		return err
	}
	defer f.Close()
	cs.Files = append(cs.Files, path)
	sc := bufio.NewScanner(f)
	sc.Buffer(make([]byte, 1<<20), 1<<20)
	var props []string
	var cur *Contract
	var lastClause *string // source of the clause being continued
	var finish func() error
	type pending struct {
		kind  string
		extra string
		loop  int
		src   string
		line  int
		label bool
	}
	var pend *pending
	var curLemma *Lemma
	var curInv *StructInv
	flush := func() error {
		if pend == nil {
			return nil
		}
		p := pend
		pend = nil
		cl, err := parseClause(p.src, path, p.line, p.label)
		if err != nil {
			return err
		}
		switch p.kind {
		case "requires":
			cur.Requires = append(cur.Requires, cl)
		case "assumes":
			cur.Assumes = append(cur.Assumes, cl)
		case "ensures":
			cur.Ensures = append(cur.Ensures, cl)
		case "ensures_assumed":
			cur.EnsuresA = append(cur.EnsuresA, cl)
		case "ensures_panic":
			cur.EnsuresP = append(cur.EnsuresP, cl)
		case "panics_iff":
			cur.PanicsIff = &cl
		case "may_panic":
			cur.MayPanic = &cl
		case "cover":
			cur.Covers = append(cur.Covers, cl)
		case "after":
			cur.After = append(cur.After, AfterClause{Callee: normPoint(p.extra), Cl: cl})
		case "after_inst":
			cur.After = append(cur.After, AfterClause{Callee: p.extra, Cl: cl, Inst: true})
		case "after_ghost":
			parts := strings.Split(p.extra, "\x00")
			ac := AfterClause{Callee: normPoint(parts[0]), Cl: cl, Ghost: parts[1]}
			for _, v := range strings.Split(parts[2], ",") {
				if v = strings.TrimSpace(v); v != "" {
					ac.GhostVars = append(ac.GhostVars, v)
				}
			}
			cur.After = append(cur.After, ac)
		case "invariant", "owninvariant":
			ls := cur.loop(p.loop)
			cl.Own = p.kind == "owninvariant"
			ls.Inv = append(ls.Inv, cl)
		case "exit":
			cur.loop(p.loop).Exit = append(cur.loop(p.loop).Exit, cl)
		case "decreases":
			cur.loop(p.loop).Decr = &cl
		case "lemma":
			curLemma.Cl = cl
			cs.Lemmas = append(cs.Lemmas, curLemma)
			curLemma = nil
		case "structinv":
			curInv.Cl = cl
			cs.Invs = append(cs.Invs, curInv)
			curInv = nil
		}
		return nil
	}
	_ = lastClause
	_ = finish
	lineNo := 0
	for sc.Scan() {
		lineNo++
		line := strings.TrimSpace(sc.Text())
		if !strings.HasPrefix(line, "//@") {
			continue
		}
		line = strings.TrimSpace(strings.TrimPrefix(line, "//@"))
		if line == "" {
			continue
		}
		if i := strings.Index(line, " //"); i >= 0 { // trailing comment
			line = strings.TrimSpace(line[:i])
		}
		word := line
		rest := ""
		if i := strings.IndexAny(line, " \t"); i >= 0 {
			word, rest = line[:i], strings.TrimSpace(line[i+1:])
		}
		startClause := func(kind string, loop int, src string, label bool) error {
			if err := flush(); err != nil {
				return err
			}
			pend = &pending{kind: kind, loop: loop, src: src, line: lineNo, label: label}
			return nil
		}
		needCur := func() error {
			if cur == nil {
				return fmt.Errorf("%s:%d: clause %q outside a func item", path, lineNo, word)
			}
			return nil
		}
		switch word {
		case "property":
			if err := flush(); err != nil {
				return err
			}
			props = strings.Fields(rest)
			cur = nil
		case "func", "assume":
			if err := flush(); err != nil {
				return err
			}
			assumed := word == "assume"
			iface := false
			name := rest
			if assumed {
				fs := strings.SplitN(rest, " ", 2)
				if len(fs) != 2 || (fs[0] != "func" && fs[0] != "iface" && fs[0] != "functype") {
					return fmt.Errorf("%s:%d: expected 'assume func|iface|functype <name>'", path, lineNo)
				}
				iface = fs[0] == "iface"
				name = strings.TrimSpace(fs[1])
				if fs[0] == "functype" {
					// calls through a value of a named func type
					c := &Contract{Pkg: pkg, File: path, Line: lineNo, Props: append([]string(nil), props...), Assumed: true,
						Loops: map[int]*LoopSpec{}, PureParams: map[string]bool{}, Event: true}
					c.Key = "functype:" + name
					c.Short = name
					cs.Funcs[c.Key] = c
					cs.Order = append(cs.Order, c.Key)
					cur = c
					continue
				}
			}
			c := &Contract{Pkg: pkg, File: path, Line: lineNo, Props: append([]string(nil), props...), Assumed: assumed,
				Loops: map[int]*LoopSpec{}, PureParams: map[string]bool{}, Iface: iface}
			if iface {
				// name is [pkg.]Iface.Method
				q := name
				if pkg != "" && strings.Count(name, ".") == 1 {
					q = pkg + "." + name
				}
				c.Key = "iface:" + q
				c.Short = shortStem("", name)
				c.Event = true
			} else {
				q := name
				if pkg != "" {
					q = qualifyFuncName(name, pkg)
				}
				c.Key = q
				c.Short = shortStem(pkg, name)
			}
			if _, dup := cs.Funcs[c.Key]; dup {
				return fmt.Errorf("%s:%d: duplicate contract for %s", path, lineNo, c.Key)
			}
			cs.Funcs[c.Key] = c
			cs.Order = append(cs.Order, c.Key)
			cur = c
		case "params":
			// params <recv> <p1> ...   the contract's own names for receiver and parameters, by
			// position ("_" = unnamed): clauses keep working when the code renames a parameter
			if err := needCur(); err != nil {
				return err
			}
			cur.ParamNames = strings.Fields(rest)
		case "results":
			if err := needCur(); err != nil {
				return err
			}
			cur.ResultNames = strings.Fields(rest)
		case "locals":
			// locals <v1> <v2> ...   the function's local variables in declaration order under the names
			// the contract uses: a clause keeps working when the code renames a local
			if err := needCur(); err != nil {
				return err
			}
			cur.LocalNames = strings.Fields(rest)
		case "mode":
			if err := needCur(); err != nil {
				if curLemma != nil {
					curLemma.Mode = rest
					continue
				}
				return err
			}
			cur.Mode = rest
		case "requires", "ensures", "ensures_panic", "panics_iff", "may_panic", "cover", "assumes", "ensures_assumed":
			if err := needCur(); err != nil {
				return err
			}
			if err := startClause(word, 0, rest, word == "ensures" || word == "ensures_panic" || word == "cover" || word == "requires" || word == "assumes" || word == "ensures_assumed"); err != nil {
				return err
			}
		case "after":
			if err := needCur(); err != nil {
				return err
			}
			if i := strings.Index(rest, " ghostset "); i >= 0 {
				gm := regexp.MustCompile(`^([A-Za-z_][A-Za-z0-9_]*)\(([^)]*)\)\s*=\s*(.*)$`).FindStringSubmatch(strings.TrimSpace(rest[i+10:]))
				if gm == nil {
					return fmt.Errorf("%s:%d: expected 'after <point> ghostset g(v1, ..) = <e>'", path, lineNo)
				}
				if err := startClause("after_ghost", 0, gm[3], false); err != nil {
					return err
				}
				pend.extra = strings.TrimSpace(rest[:i]) + "\x00" + gm[1] + "\x00" + gm[2]
				continue
			}
			if i := strings.Index(rest, " instantiate "); i >= 0 {
				if err := startClause("after_inst", 0, strings.TrimSpace(rest[i+13:]), false); err != nil {
					return err
				}
				pend.extra = strings.TrimSpace(rest[:i])
				continue
			}
			i := strings.Index(rest, " assert ")
			if i < 0 {
				return fmt.Errorf("%s:%d: expected 'after <callee> assert <e>' or 'after <callee> instantiate <label>(args)'", path, lineNo)
			}
			if err := startClause("after", 0, strings.TrimSpace(rest[i+8:]), true); err != nil {
				return err
			}
			pend.extra = strings.TrimSpace(rest[:i])
		case "modifies":
			if err := needCur(); err != nil {
				return err
			}
			if err := flush(); err != nil {
				return err
			}
			cur.HasMod = true
			for _, it := range strings.Split(rest, ",") {
				if it = strings.TrimSpace(it); it != "" && it != "nothing" {
					cur.Modifies = append(cur.Modifies, it)
				}
			}
		case "preserves":
			if err := needCur(); err != nil {
				return err
			}
			if err := flush(); err != nil {
				return err
			}
			for _, it := range strings.Split(rest, ",") {
				if it = strings.TrimSpace(it); it != "" {
					cur.Preserves = append(cur.Preserves, it)
				}
			}
		case "loop":
			if err := needCur(); err != nil {
				return err
			}
			var n int
			var kind string
			fs := strings.SplitN(rest, " ", 3)
			if len(fs) < 2 {
				return fmt.Errorf("%s:%d: bad loop clause", path, lineNo)
			}
			if _, err := fmt.Sscanf(fs[0], "%d", &n); err != nil {
				return fmt.Errorf("%s:%d: bad loop ordinal %q", path, lineNo, fs[0])
			}
			kind = fs[1]
			body := ""
			if len(fs) == 3 {
				body = fs[2]
			}
			switch kind {
			case "invariant", "decreases", "exit", "owninvariant":
				if err := startClause(kind, n, body, kind != "decreases"); err != nil {
					return err
				}
			case "modifies":
				if err := flush(); err != nil {
					return err
				}
				for _, it := range strings.Split(body, ",") {
					if it = strings.TrimSpace(it); it != "" {
						cur.loop(n).Modifies = append(cur.loop(n).Modifies, it)
					}
				}
			case "preserves":
				if err := flush(); err != nil {
					return err
				}
				for _, it := range strings.Split(body, ",") {
					if it = strings.TrimSpace(it); it != "" {
						cur.loop(n).Preserves = append(cur.loop(n).Preserves, it)
					}
				}
			case "emits":
				if err := flush(); err != nil {
					return err
				}
				cur.loop(n).Emits = true
			default:
				return fmt.Errorf("%s:%d: unknown loop clause %q", path, lineNo, kind)
			}
		case "inline", "trusted", "event", "pure", "noevent":
			if err := needCur(); err != nil {
				return err
			}
			if err := flush(); err != nil {
				return err
			}
			switch word {
			case "inline":
				cur.Inline = true
			case "trusted":
				cur.Trusted = true
				cur.Assumed = true
			case "event":
				cur.Event = true
			case "noevent":
				cur.Event = false
			case "pure":
				cur.Pure = true
			}
		case "forall":
			if err := flush(); err != nil {
				return err
			}
			ps, err := parseParams(rest)
			if err != nil {
				return fmt.Errorf("%s:%d: %v", path, lineNo, err)
			}
			if cur != nil {
				cur.Foralls = append(cur.Foralls, ps...)
			}
		case "split":
			if err := flush(); err != nil {
				return err
			}
			if curLemma != nil {
				curLemma.Split = append(curLemma.Split, rest)
			} else if cur != nil {
				cur.Split = append(cur.Split, rest)
			}
		case "param":
			if err := needCur(); err != nil {
				return err
			}
			if err := flush(); err != nil {
				return err
			}
			fs := strings.Fields(rest)
			if len(fs) == 2 && fs[1] == "pure" {
				cur.PureParams[fs[0]] = true
			} else {
				return fmt.Errorf("%s:%d: bad param clause", path, lineNo)
			}
		case "struct":
			if err := flush(); err != nil {
				return err
			}
			fs := strings.SplitN(rest, " ", 3)
			lockName := ""
			if len(fs) == 3 && fs[1] == "lockinv" {
				g := strings.SplitN(fs[2], " ", 2)
				if len(g) != 2 {
					return fmt.Errorf("%s:%d: expected 'struct T lockinv <mutex> e'", path, lineNo)
				}
				lockName, fs[1], fs[2] = g[0], "invariant", g[1]
			}
			if len(fs) != 3 || fs[1] != "invariant" {
				return fmt.Errorf("%s:%d: expected 'struct T invariant e'", path, lineNo)
			}
			tn := fs[0]
			if pkg != "" && !strings.Contains(tn, ".") {
				tn = pkg + "." + tn
			}
			curInv = &StructInv{Type: tn, Pkg: pkg, Lock: lockName, Props: append([]string(nil), props...)}
			cur = nil
			pend = &pending{kind: "structinv", src: fs[2], line: lineNo, label: true}
		case "spec":
			if err := flush(); err != nil {
				return err
			}
			cur = nil
			m := regexp.MustCompile(`^func\s+([A-Za-z_][A-Za-z0-9_]*)\((.*?)\)\s*([^=]*?)\s*=\s*(.*)$`).FindStringSubmatch(rest)
			if m == nil {
				return fmt.Errorf("%s:%d: bad spec func", path, lineNo)
			}
			ps, err := parseParams(m[2])
			if err != nil {
				return fmt.Errorf("%s:%d: %v", path, lineNo, err)
			}
			e, err := parser.ParseExpr(m[4])
			if err != nil {
				return fmt.Errorf("%s:%d: spec func body: %v", path, lineNo, err)
			}
			sf := &SpecFunc{Name: m[1], Pkg: pkg, Params: ps, Result: strings.TrimSpace(m[3]), Body: e, Src: m[4]}
			cs.Specs[m[1]] = sf
		case "ghost":
			if err := flush(); err != nil {
				return err
			}
			cur = nil
			m := regexp.MustCompile(`^([A-Za-z_][A-Za-z0-9_]*)\((.*?)\)\s*(.*)$`).FindStringSubmatch(rest)
			if m == nil {
				return fmt.Errorf("%s:%d: bad ghost decl", path, lineNo)
			}
			var keys []string
			for _, k := range strings.Split(m[2], ",") {
				if k = strings.TrimSpace(k); k != "" {
					keys = append(keys, k)
				}
			}
			cs.Ghosts[m[1]] = &GhostDecl{Name: m[1], Pkg: pkg, Keys: keys, Result: strings.TrimSpace(m[3])}
		case "lemma":
			if err := flush(); err != nil {
				return err
			}
			cur = nil
			m := regexp.MustCompile(`^([A-Za-z_][A-Za-z0-9_]*)\((.*?)\)\s*(.*)$`).FindStringSubmatch(rest)
			if m == nil {
				return fmt.Errorf("%s:%d: bad lemma", path, lineNo)
			}
			ps, err := parseParams(m[2])
			if err != nil {
				return fmt.Errorf("%s:%d: %v", path, lineNo, err)
			}
			curLemma = &Lemma{Name: m[1], Pkg: pkg, Props: append([]string(nil), props...), Params: ps}
			pend = &pending{kind: "lemma", src: m[3], line: lineNo}
		case "lockwrapper":
			// lockwrapper <func> <mutex field> r|w
			if err := flush(); err != nil {
				return err
			}
			fs := strings.Fields(rest)
			if len(fs) != 3 {
				return fmt.Errorf("%s:%d: expected 'lockwrapper <func> <mutex> r|w'", path, lineNo)
			}
			cs.Fields = append(cs.Fields, &FieldDecl{Type: fs[0], Pkg: pkg, Kind: "lockwrapper", Arg: fs[1] + " " + fs[2], Props: append([]string(nil), props...)})
		case "nouse":
			// nouse <func>: after "<callee>" argument <i>   the i-th argument of the call is not used by any instruction the call dominates
			if err := flush(); err != nil {
				return err
			}
			nm := regexp.MustCompile(`^(.+?):\s*after\s+"([^"]+)"\s+argument\s+(\d+)$`).FindStringSubmatch(rest)
			if nm == nil {
				return fmt.Errorf("%s:%d: expected 'nouse <func>: after \"callee\" argument <i>'", path, lineNo)
			}
			cs.Fields = append(cs.Fields, &FieldDecl{Type: strings.TrimSpace(nm[1]), Field: nm[2], Pkg: pkg, Kind: "nouse", Arg: nm[3], Props: append([]string(nil), props...)})
		case "cellfresh":
			// cellfresh <func>: after "<callee>" argument <i>   the i-th argument is the address of a
			// local variable that is not written again (in the same incarnation) once the call was made
			if err := flush(); err != nil {
				return err
			}
			cm := regexp.MustCompile(`^(.+?):\s*after\s+"([^"]+)"\s+argument\s+(\d+)$`).FindStringSubmatch(rest)
			if cm == nil {
				return fmt.Errorf("%s:%d: expected 'cellfresh <func>: after \"callee\" argument <i>'", path, lineNo)
			}
			cs.Fields = append(cs.Fields, &FieldDecl{Type: strings.TrimSpace(cm[1]), Field: cm[2], Pkg: pkg, Kind: "cellfresh", Arg: cm[3], Props: append([]string(nil), props...)})
		case "types":
			// types covered   every named type of this package with exported methods has a methods clause
			if err := flush(); err != nil {
				return err
			}
			cs.Fields = append(cs.Fields, &FieldDecl{Type: "*", Field: "*", Pkg: pkg, Kind: "typescovered", Arg: strings.TrimSpace(rest), Props: append([]string(nil), props...)})
		case "globals":
			// globals immutable [except g1 g2 ...]   package-level variables of this package are only
			// written by the package initialiser (no mutable global state)
			if err := flush(); err != nil {
				return err
			}
			cs.Fields = append(cs.Fields, &FieldDecl{Type: "*", Field: "*", Pkg: pkg, Kind: "globals", Arg: strings.TrimSpace(rest), Props: append([]string(nil), props...)})
		case "methods":
			// methods <T>: M1 M2 ...   the method set of *T is exactly the listed methods (all under contract)
			if err := flush(); err != nil {
				return err
			}
			mi := strings.Index(rest, ":")
			if mi < 0 {
				return fmt.Errorf("%s:%d: expected 'methods T: M1 M2 ...'", path, lineNo)
			}
			cs.Fields = append(cs.Fields, &FieldDecl{Type: strings.TrimSpace(rest[:mi]), Field: "*", Pkg: pkg, Kind: "methods", Arg: strings.TrimSpace(rest[mi+1:]), Props: append([]string(nil), props...)})
		case "order":
			// order <func>: "<A>" dominates "<B>"   every call of B in func is dominated by a call of A
			if err := flush(); err != nil {
				return err
			}
			om := regexp.MustCompile(`^(.+?):\s*"([^"]+)"\s+dominates\s+"([^"]+)"$`).FindStringSubmatch(rest)
			if om == nil {
				return fmt.Errorf("%s:%d: expected 'order <func>: \"A\" dominates \"B\"'", path, lineNo)
			}
			cs.Fields = append(cs.Fields, &FieldDecl{Type: strings.TrimSpace(om[1]), Field: om[2], Pkg: pkg, Kind: "order", Arg: om[3], Props: append([]string(nil), props...)})
		case "promoted":
			// promoted <T> via <field>: M1 M2 ...   every listed method of *T resolves to the embedded field's method
			if err := flush(); err != nil {
				return err
			}
			i := strings.Index(rest, ":")
			hd := strings.Fields(rest[:max(i, 0)])
			if i < 0 || len(hd) != 3 || hd[1] != "via" {
				return fmt.Errorf("%s:%d: expected 'promoted T via field: methods'", path, lineNo)
			}
			cs.Fields = append(cs.Fields, &FieldDecl{Type: hd[0], Field: hd[2], Pkg: pkg, Kind: "promoted", Arg: strings.TrimSpace(rest[i+1:]), Props: append([]string(nil), props...)})
		case "field":
			if err := flush(); err != nil {
				return err
			}
			fs := strings.SplitN(rest, " ", 3)
			if len(fs) < 2 {
				return fmt.Errorf("%s:%d: bad field clause", path, lineNo)
			}
			tf := strings.SplitN(fs[0], ".", 2)
			if len(tf) != 2 {
				return fmt.Errorf("%s:%d: field wants T.f", path, lineNo)
			}
			fd := &FieldDecl{Type: tf[0], Field: tf[1], Pkg: pkg, Kind: fs[1], Props: append([]string(nil), props...)}
			if len(fs) == 3 {
				fd.Arg = fs[2]
			}
			cs.Fields = append(cs.Fields, fd)
		default:
			// continuation of the pending clause
			if pend != nil {
				pend.src += " " + line
				continue
			}
			return fmt.Errorf("%s:%d: unknown contract item %q", path, lineNo, word)
		}
	}
	return flush()
}

// normPoint: "store T.f" -> "store:T.f"
func normPoint(s string) string {
	s = strings.TrimSpace(s)
	if strings.HasPrefix(s, "store ") {
		return "store:" + strings.TrimSpace(s[6:])
	}
	return s
}

func (c *Contract) loop(n int) *LoopSpec {
	ls := c.Loops[n]
	if ls == nil {
		ls = &LoopSpec{}
		c.Loops[n] = ls
	}
	return ls
}

func (c *Contract) hasProp(id string) bool {
	for _, p := range c.Props {
		if p == id {
			return true
		}
	}
	return false
}
