package main

// C11 / C06 replays: writes on a closed channel; graceful close.
// Oracle (C11, from the statement): after Close has returned every write entry point returns a
// non-nil error and no byte reaches the transport, whatever error value Close was given.

import "fmt"

func init() {
	registerReplay(`^netty\.channel\.(asyncWrite|asyncWritev|write1|Writev|CtxWrite1|CtxWritev|Write)#post:closed_`, replayClosedWrite, nil)
	registerReplay(`^netty\.channel\.Close#post:observes_queue_empty_then_idle`, replayGracefulClose, nil)
}

const mockTransport = `
type mockTransport struct {
	mu      sync.Mutex
	written bytes.Buffer
	closed  bool
	gate    chan struct{} // Flush waits here when non-nil
}

func (m *mockTransport) Read(p []byte) (int, error)  { select {} }
func (m *mockTransport) Write(p []byte) (int, error) {
	m.mu.Lock()
	defer m.mu.Unlock()
	if m.closed {
		return 0, errors.New("use of closed connection")
	}
	return m.written.Write(p)
}
func (m *mockTransport) Writev(b transport.Buffers) (int64, error) {
	var n int64
	for _, p := range b {
		k, err := m.Write(p)
		n += int64(k)
		if err != nil {
			return n, err
		}
	}
	return n, nil
}
func (m *mockTransport) Flush() error {
	if m.gate != nil {
		<-m.gate
	}
	return nil
}
func (m *mockTransport) Close() error {
	m.mu.Lock()
	defer m.mu.Unlock()
	m.closed = true
	return nil
}
func (m *mockTransport) bytes() string {
	m.mu.Lock()
	defer m.mu.Unlock()
	return m.written.String()
}
func (m *mockTransport) LocalAddr() net.Addr                { return &net.TCPAddr{} }
func (m *mockTransport) RemoteAddr() net.Addr               { return &net.TCPAddr{} }
func (m *mockTransport) SetDeadline(time.Time) error      { return nil }
func (m *mockTransport) SetReadDeadline(time.Time) error  { return nil }
func (m *mockTransport) SetWriteDeadline(time.Time) error { return nil }
func (m *mockTransport) RawTransport() interface{}        { return m }
`

func replayClosedWrite(ld *Loaded, o *Obligation, m map[string]string, smt string) (string, string, bool) {
	src := fmt.Sprintf(`package netty

import (
	"bytes"
	"context"
	"errors"
	"net"
	"sync"
	"testing"
	"time"

	"github.com/go-netty/go-netty/transport"
)
%s
// generated for %s
func TestReplayVerif(t *testing.T) {
	var failures []string
	for _, queue := range []int{0, 8} {
		for try := 0; try < 200; try++ {
			mt := &mockTransport{}
			pl := NewPipeline()
			ch := newChannelWith(context.Background(), pl, mt, AsyncExecutor(), 1, queue, true)
			pl.(*pipeline).channel = ch
			ch.Close(nil) // what the read loop itself issues when the parent context ends
			check := func(name string, err error) {
				if err == nil {
					failures = append(failures, name)
				}
			}
			_, err := ch.Write1([]byte("x"))
			check("Write1", err)
			_, err = ch.Writev([][]byte{[]byte("x")})
			check("Writev", err)
			_, err = ch.CtxWrite1(context.Background(), []byte("x"))
			check("CtxWrite1", err)
			_, err = ch.CtxWritev(context.Background(), [][]byte{[]byte("x")})
			check("CtxWritev", err)
			_, err = ch.ReadFrom(bytes.NewReader([]byte("x")))
			check("ReadFrom", err)
			check("Write", ch.Write([]byte("x")))
			if len(failures) > 0 {
				t.Fatalf("REPLAY-CONFIRMED: after Close(nil) returned, on a channel with queue size %%d these write calls reported success: %%v", queue, failures)
			}
		}
	}
}
`, mockTransport, o.Name)
	return ".", src, true
}

// C06: a payload accepted before Close must reach the transport before it is closed. The losing
// schedule: the sender has stored idle but not yet re-checked the queue when Close polls the flag.
func replayGracefulClose(ld *Loaded, o *Obligation, m map[string]string, smt string) (string, string, bool) {
	src := fmt.Sprintf(`package netty

import (
	"bytes"
	"context"
	"errors"
	"net"
	"runtime"
	"sync"
	"sync/atomic"
	"testing"
	"time"

	"github.com/go-netty/go-netty/transport"
)
%s
// generated for %s (schedule search, bounded)
func TestReplayVerif(t *testing.T) {
	deadline := time.Now().Add(40 * time.Second)
	for try := 0; time.Now().Before(deadline); try++ {
		mt := &mockTransport{gate: make(chan struct{})}
		pl := NewPipeline()
		chn := newChannelWith(context.Background(), pl, mt, AsyncExecutor(), 1, 8, true)
		pl.(*pipeline).channel = chn
		c := chn.(*channel)
		if _, err := c.Write1([]byte("A")); err != nil {
			t.Fatal(err)
		}
		// wait until the sender is parked inside Flush (running == 1, "A" written)
		for mt.bytes() != "A" {
			runtime.Gosched()
		}
		if _, err := c.Write1([]byte("B")); err != nil { // accepted: queued behind the parked sender
			t.Fatal(err)
		}
		go func() { close(mt.gate) }()
		// Close as soon as the sender has released ownership
		for atomic.LoadInt32(&c.running) != idle {
		}
		c.Close(nil)
		time.Sleep(2 * time.Millisecond)
		if got := mt.bytes(); got != "AB" {
			t.Fatalf("REPLAY-CONFIRMED: payload B was accepted before Close but the transport was closed with only %%q sent (attempt %%d)", got, try)
		}
	}
}
`, mockTransport, o.Name)
	return ".", src, true
}
