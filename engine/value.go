package main

// Symbolic Go values. A value is a tree shaped by its Go type whose leaves are
// SMT terms (DESIGN.md 2.2):
//   bool, integers          one leaf
//   pointer, chan, map      one leaf (Ref = Int); interior pointers additionally carry an
//                           executor-level Ptr (never stored in the SMT heap)
//   slice                   arr(Ref) off len cap
//   string                  arr(Ref) off len   (immutable byte storage in the same element heap)
//   interface               typ(Int) val(Int)
//   func                    fn(Int) env(Ref)
//   struct                  concatenation of its fields
//   array [N]T (as value)   one leaf: (Array Idx leaf) per leaf of T  (only scalar element types)

import (
	"fmt"
	"regexp"
	"go/types"
	"math/big"
	"strings"

	"golang.org/x/tools/go/ssa"
)

type Kind int

const (
	KBool Kind = iota
	KInt
	KPtr
	KSlice
	KString
	KIface
	KFunc
	KStruct
	KArray
	KTuple
	KChan
	KMap
	KFloat
	KSeq // contract-only: byte sequence (arr, lo, len)
	KUnit
)

type Val struct {
	T  types.Type
	K  Kind
	S  Tm     // scalar leaf (KBool, KInt, KPtr, KChan, KMap, KFloat) or array term for KArray / KSeq
	Fs []*Val // components
	P  *Ptr   // KPtr: interior / typed pointer info (nil = whole-object pointer with base S)
	Cl *Closure
	C   *big.Int // contract-level untyped integer constant
	Str *string  // contract-level string constant
}

// Closure is executor-level knowledge about a func value.
type Closure struct {
	Fn    *ssa.Function
	Binds []*Val
	// Bound method value: receiver
	Recv *Val
}

type PtrKind int

const (
	PObj    PtrKind = iota // into an object of type Root at reference Base
	PElem                  // into element Idx of the backing array Base, element type Root
	PGlobal                // package-level variable
	PBox                   // boxed interface payload of type Root at reference Base
)

type Ptr struct {
	Kind PtrKind
	Base Tm
	Idx  Tm
	Root types.Type
	Path []int // field indices from Root down to the pointee
	Glob string
}

func (p *Ptr) withField(i int) *Ptr {
	q := *p
	q.Path = append(append([]int{}, p.Path...), i)
	return &q
}

// typeKey is the canonical name of a type used in heap-array names and type ids.
func typeKey(t types.Type) string {
	s := types.TypeString(t, func(p *types.Package) string { return p.Path() })
	if strings.Contains(s, "byte") || strings.Contains(s, "rune") || strings.Contains(s, "any") {
		s = aliasRe.ReplaceAllStringFunc(s, func(w string) string {
			switch w {
			case "byte":
				return "uint8"
			case "rune":
				return "int32"
			case "any":
				return "interface{}"
			}
			return w
		})
	}
	return s
}

// predeclared aliases print under their alias name; heap arrays are keyed by the canonical type
var aliasRe = regexp.MustCompile(`\b(byte|rune|any)\b`)

func sanitize(s string) string {
	var b strings.Builder
	for _, r := range s {
		switch {
		case r >= 'a' && r <= 'z', r >= 'A' && r <= 'Z', r >= '0' && r <= '9', r == '_', r == '.':
			b.WriteRune(r)
		case r == '*':
			b.WriteString("P_")
		case r == '[':
			b.WriteString("L_")
		case r == ']':
			b.WriteString("_J")
		case r == '/':
			b.WriteString("~")
		default:
			b.WriteString("_")
		}
	}
	return b.String()
}

// leaf describes one SMT-level component of a type.
type leaf struct {
	path string
	sort Sort
}

func kindOf(t types.Type) Kind {
	switch u := t.Underlying().(type) {
	case *types.Basic:
		switch {
		case u.Info()&types.IsBoolean != 0:
			return KBool
		case u.Info()&types.IsInteger != 0:
			return KInt
		case u.Info()&types.IsString != 0:
			return KString
		case u.Info()&types.IsFloat != 0, u.Info()&types.IsComplex != 0:
			return KFloat
		case u.Kind() == types.UnsafePointer:
			return KPtr
		case u.Kind() == types.UntypedNil:
			return KPtr
		}
	case *types.Pointer:
		return KPtr
	case *types.Slice:
		return KSlice
	case *types.Interface:
		return KIface
	case *types.Signature:
		return KFunc
	case *types.Struct:
		return KStruct
	case *types.Array:
		return KArray
	case *types.Tuple:
		return KTuple
	case *types.Chan:
		return KChan
	case *types.Map:
		return KMap
	case *types.TypeParam:
		panic("uninstantiated type parameter " + t.String())
	}
	panic("kindOf: unsupported type " + t.String())
}

func (m Mode) leaves(t types.Type) []leaf {
	switch kindOf(t) {
	case KBool:
		return []leaf{{"", SBool}}
	case KInt:
		ii, _ := basicIntInfo(t)
		return []leaf{{"", m.intSort(ii)}}
	case KFloat:
		return []leaf{{"", SInt}} // opaque
	case KPtr, KChan, KMap:
		return []leaf{{"", SInt}}
	case KSlice:
		return []leaf{{".arr", SInt}, {".off", m.idx()}, {".len", m.idx()}, {".cap", m.idx()}}
	case KString:
		return []leaf{{".arr", SInt}, {".off", m.idx()}, {".len", m.idx()}}
	case KIface:
		return []leaf{{".typ", SInt}, {".val", SInt}}
	case KFunc:
		return []leaf{{".fn", SInt}, {".env", SInt}}
	case KStruct:
		st := t.Underlying().(*types.Struct)
		var out []leaf
		for i := 0; i < st.NumFields(); i++ {
			for _, l := range m.leaves(st.Field(i).Type()) {
				out = append(out, leaf{fmt.Sprintf(".%s%s", st.Field(i).Name(), l.path), l.sort})
			}
		}
		return out
	case KArray:
		at := t.Underlying().(*types.Array)
		var out []leaf
		for _, l := range m.leaves(at.Elem()) {
			out = append(out, leaf{"[]" + l.path, ArrOf(m.idx(), l.sort)})
		}
		return out
	case KTuple:
		tt := t.(*types.Tuple)
		var out []leaf
		for i := 0; i < tt.Len(); i++ {
			for _, l := range m.leaves(tt.At(i).Type()) {
				out = append(out, leaf{fmt.Sprintf("#%d%s", i, l.path), l.sort})
			}
		}
		return out
	}
	panic("leaves: " + t.String())
}

// flatten returns the leaf terms of v in the order of Mode.leaves(v.T).
func (v *Val) flatten() []Tm {
	switch v.K {
	case KBool, KInt, KPtr, KChan, KMap, KFloat:
		return []Tm{v.S}
	case KArray:
		var out []Tm
		for _, f := range v.Fs {
			out = append(out, f.S)
		}
		return out
	default:
		var out []Tm
		for _, f := range v.Fs {
			out = append(out, f.flatten()...)
		}
		return out
	}
}

// build reconstructs a value of type t from leaf terms (inverse of flatten).
func (m Mode) build(t types.Type, ts []Tm) *Val {
	v, rest := m.build1(t, ts)
	if len(rest) != 0 {
		panic("build: leftover leaves for " + t.String())
	}
	return v
}

func scalar(t types.Type, k Kind, s Tm) *Val { return &Val{T: t, K: k, S: s} }

func (m Mode) build1(t types.Type, ts []Tm) (*Val, []Tm) {
	k := kindOf(t)
	switch k {
	case KBool, KInt, KPtr, KChan, KMap, KFloat:
		return scalar(t, k, ts[0]), ts[1:]
	case KSlice:
		return &Val{T: t, K: k, Fs: []*Val{
			scalar(nil, KPtr, ts[0]), scalar(nil, KInt, ts[1]), scalar(nil, KInt, ts[2]), scalar(nil, KInt, ts[3])}}, ts[4:]
	case KString:
		return &Val{T: t, K: k, Fs: []*Val{
			scalar(nil, KPtr, ts[0]), scalar(nil, KInt, ts[1]), scalar(nil, KInt, ts[2])}}, ts[3:]
	case KIface, KFunc:
		return &Val{T: t, K: k, Fs: []*Val{scalar(nil, KInt, ts[0]), scalar(nil, KInt, ts[1])}}, ts[2:]
	case KStruct:
		st := t.Underlying().(*types.Struct)
		v := &Val{T: t, K: k}
		for i := 0; i < st.NumFields(); i++ {
			var f *Val
			f, ts = m.build1(st.Field(i).Type(), ts)
			v.Fs = append(v.Fs, f)
		}
		return v, ts
	case KTuple:
		tt := t.(*types.Tuple)
		v := &Val{T: t, K: k}
		for i := 0; i < tt.Len(); i++ {
			var f *Val
			f, ts = m.build1(tt.At(i).Type(), ts)
			v.Fs = append(v.Fs, f)
		}
		return v, ts
	case KArray:
		at := t.Underlying().(*types.Array)
		n := len(m.leaves(at.Elem()))
		v := &Val{T: t, K: k}
		for i := 0; i < n; i++ {
			v.Fs = append(v.Fs, scalar(nil, KArray, ts[i]))
		}
		return v, ts[n:]
	}
	panic("build1: " + t.String())
}

// slice / string / iface accessors
func (v *Val) arr() Tm { return v.Fs[0].S }
func (v *Val) off() Tm { return v.Fs[1].S }
func (v *Val) ln() Tm  { return v.Fs[2].S }
func (v *Val) cp() Tm {
	if v.K == KString || v.K == KSeq {
		return v.Fs[2].S
	}
	return v.Fs[3].S
}
func (v *Val) ityp() Tm { return v.Fs[0].S }
func (v *Val) ival() Tm { return v.Fs[1].S }

func (m Mode) zero(t types.Type) *Val {
	ls := m.leaves(t)
	ts := make([]Tm, len(ls))
	for i, l := range ls {
		if strings.HasPrefix(string(l.sort), "(Array") {
			// const array of zeros
			es := arrayElemSort(l.sort)
			ts[i] = tm(l.sort, "((as const %s) %s)", l.sort, zeroOf(es).S)
		} else {
			ts[i] = zeroOf(l.sort)
		}
	}
	return m.build(t, ts)
}

// arrayElemSort parses "(Array I E)" and returns E.
func arrayElemSort(s Sort) Sort {
	str := string(s)
	str = strings.TrimPrefix(str, "(Array ")
	str = strings.TrimSuffix(str, ")")
	// skip index sort
	depth := 0
	for i, c := range str {
		switch c {
		case '(':
			depth++
		case ')':
			depth--
		case ' ':
			if depth == 0 {
				return Sort(str[i+1:])
			}
		}
	}
	panic("arrayElemSort " + string(s))
}

func arrayIdxSort(s Sort) Sort {
	str := string(s)
	str = strings.TrimPrefix(str, "(Array ")
	depth := 0
	for i, c := range str {
		switch c {
		case '(':
			depth++
		case ')':
			depth--
		case ' ':
			if depth == 0 {
				return Sort(str[:i])
			}
		}
	}
	panic("arrayIdxSort " + string(s))
}

func valEq(a, b *Val) Tm {
	fa, fb := a.flatten(), b.flatten()
	if len(fa) != len(fb) {
		panic(fmt.Sprintf("valEq: shape mismatch %v vs %v", a.T, b.T))
	}
	var cs []Tm
	for i := range fa {
		cs = append(cs, eq(fa[i], fb[i]))
	}
	return and(cs...)
}

func isNilTm(v *Val) Tm {
	switch v.K {
	case KPtr, KChan, KMap:
		return eq(v.S, Tm{"0", SInt})
	case KSlice:
		return eq(v.arr(), Tm{"0", SInt})
	case KIface:
		return eq(v.ityp(), Tm{"0", SInt})
	case KFunc:
		return eq(v.Fs[0].S, Tm{"0", SInt})
	}
	panic("isNil of " + fmt.Sprint(v.K))
}
