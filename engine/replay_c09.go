package main

// C09 replays. Oracle (from the statement): the bytes produced for one outbound message appear
// contiguously on the wire. Deterministic schedule: the mock transport parks the first writer
// between its first and second low-level write until a second writer has written its message.

import "fmt"

func init() {
	registerReplay(`^netty\.channel\.ReadFrom#inv_step:loop0\.single_write@C09`, replayInterleave("reader"), nil)
	registerReplay(`^netty\.headHandler\.HandleWrite#post:writer_to_single_write@C09`, replayInterleave("writerto"), nil)
}

func replayInterleave(kind string) replayBuilder {
	return func(ld *Loaded, o *Obligation, m map[string]string, smt string) (string, string, bool) {
		msg := `&parkingReader{data: bytes.Repeat([]byte("a"), 2048), gate: mt.bWritten}`
		if kind == "writerto" {
			msg = `io.MultiReader(&parkingReader{data: bytes.Repeat([]byte("a"), 1024)}, &parkingReader{data: bytes.Repeat([]byte("a"), 1024), parkFirst: true, gate: mt.bWritten})`
		}
		src := fmt.Sprintf(`package netty

import (
	"bytes"
	"context"
	"io"
	"net"
	"strings"
	"sync"
	"testing"
	"time"

	"github.com/go-netty/go-netty/transport"
)

var _ = strings.Repeat

// parkingReader delivers its data in reads of at most 1024 bytes; before the read that follows
// the first low-level write of its message it waits until the other writer is done.
type parkingReader struct {
	data      []byte
	reads     int
	parkFirst bool
	gate      chan struct{}
}

func (r *parkingReader) Read(p []byte) (int, error) {
	r.reads++
	if r.gate != nil && ((r.parkFirst && r.reads == 1) || (!r.parkFirst && r.reads == 2)) {
		<-r.gate
	}
	if len(r.data) == 0 {
		return 0, io.EOF
	}
	n := copy(p, r.data)
	if n > 1024 {
		n = 1024
	}
	r.data = r.data[n:]
	return n, nil
}

type parkingTransport struct {
	mu       sync.Mutex
	wire     bytes.Buffer
	aWrites  int
	firstA   chan struct{} // closed when the first chunk of message A is on the wire
	bWritten chan struct{} // closed when message B is on the wire
}

func (m *parkingTransport) Read(p []byte) (int, error) { select {} }
func (m *parkingTransport) Write(p []byte) (int, error) {
	isA := len(p) > 0 && p[0] == 'a'
	if isA {
		m.mu.Lock()
		m.aWrites++
		n := m.aWrites
		m.mu.Unlock()
		_ = n
	}
	m.mu.Lock()
	m.wire.Write(p)
	m.mu.Unlock()
	if isA {
		m.mu.Lock()
		first := m.aWrites == 1
		m.mu.Unlock()
		if first {
			close(m.firstA)
		}
	} else {
		close(m.bWritten)
	}
	return len(p), nil
}
func (m *parkingTransport) Writev(b transport.Buffers) (int64, error) {
	var n int64
	for _, p := range b {
		k, _ := m.Write(p)
		n += int64(k)
	}
	return n, nil
}
func (m *parkingTransport) Flush() error                      { return nil }
func (m *parkingTransport) Close() error                      { return nil }
func (m *parkingTransport) LocalAddr() net.Addr               { return &net.TCPAddr{} }
func (m *parkingTransport) RemoteAddr() net.Addr              { return &net.TCPAddr{} }
func (m *parkingTransport) SetDeadline(time.Time) error      { return nil }
func (m *parkingTransport) SetReadDeadline(time.Time) error  { return nil }
func (m *parkingTransport) SetWriteDeadline(time.Time) error { return nil }
func (m *parkingTransport) RawTransport() interface{}        { return m }

// generated for %s
func TestReplayVerif(t *testing.T) {
	mt := &parkingTransport{firstA: make(chan struct{}), bWritten: make(chan struct{})}
	pl := NewPipeline()
	ch := newChannelWith(context.Background(), pl, mt, AsyncExecutor(), 1, 0, false) // synchronous channel
	pl.(*pipeline).channel = ch
	var wg sync.WaitGroup
	wg.Add(2)
	go func() { defer wg.Done(); ch.Write(%s) }()
	go func() { defer wg.Done(); <-mt.firstA; ch.Write([]byte("BBBB")) }()
	done := make(chan struct{})
	go func() { wg.Wait(); close(done) }()
	select {
	case <-done:
	case <-time.After(10 * time.Second):
		mt.mu.Lock()
		t.Logf("no interleaving within 10s: %%d low-level writes of A, %%d bytes on the wire", mt.aWrites, mt.wire.Len())
		mt.mu.Unlock()
		return // message A was a single low-level write: nothing to interleave
	}
	wire := mt.wire.String()
	i := strings.Index(wire, "BBBB")
	if i > 0 && i+4 < len(wire) {
		t.Fatalf("REPLAY-CONFIRMED: message B (4 bytes) appears at offset %%d inside the %%d bytes of message A", i, len(wire)-4)
	}
}
`, o.Name, msg)
		return ".", src, true
	}
}
