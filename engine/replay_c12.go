package main

// C12 replays: two-goroutine probes under the Go race detector (`go test -race` through the
// overlay). Oracle (from the statement): operations offered for concurrent use never perform
// unsynchronised conflicting accesses; a "WARNING: DATA RACE" report is the failing observation.

import "fmt"

func init() {
	registerReplay(`^netty\.channel#protect:closeErr`, replayRaceCloseErr, nil)
	registerReplay(`^netty\.listener#protect:(acceptor|options|closed)`, replayRaceListener, nil)
	registerReplay(`^netty\.(channel|channelHolder|readIdleHandler|writeIdleHandler)(\.with(Read)?Lock)?#(protect|frame):`, replayRaceChannelAPI, nil)
}

// A stress probe over the concurrently usable API of one channel with both idle handlers and a
// holder in its pipeline: writers, Trigger, IsActive/Context, the idle timers' callbacks, CloseAll
// and Close overlap. Used for every protection obligation of these types that has no dedicated probe.
func replayRaceChannelAPI(ld *Loaded, o *Obligation, m map[string]string, smt string) (string, string, bool) {
	src := fmt.Sprintf(`package netty

//replay:race
import (
	"bytes"
	"context"
	"errors"
	"net"
	"sync"
	"testing"
	"time"

	"github.com/go-netty/go-netty/transport"
)
%s
// generated for %s
func TestReplayVerif(t *testing.T) {
	for _, queue := range []int{0, 8} {
		for try := 0; try < 30; try++ {
			mt := &mockTransport{}
			pl := NewPipeline()
			holder := NewChannelHolder(4)
			rd := ReadIdleHandler(time.Second).(*readIdleHandler)
			wr := WriteIdleHandler(time.Second).(*writeIdleHandler)
			pl.AddLast(holder, rd, wr)
			ch := newChannelWith(context.Background(), pl, mt, AsyncExecutor(), int64(try), queue, false)
			pl.(*pipeline).channel = ch
			pl.FireChannelActive()
			var wg sync.WaitGroup
			run := func(f func()) { wg.Add(1); go func() { defer wg.Done(); f() }() }
			for w := 0; w < 2; w++ {
				run(func() {
					for i := 0; i < 5; i++ {
						ch.Write([]byte("x"))
						ch.Write1([]byte("y"))
						ch.Writev([][]byte{[]byte("z")})
						ch.Trigger("event")
						_ = ch.IsActive()
						_ = ch.Context()
					}
				})
			}
			run(func() { rd.onReadTimeout(); rd.onReadTimeout() })
			run(func() { wr.onWriteTimeout(); wr.onWriteTimeout() })
			run(func() { pl.FireChannelRead(bytes.NewReader([]byte("in"))) })
			run(func() { time.Sleep(time.Millisecond); holder.CloseAll(errors.New("shutdown")) })
			run(func() { time.Sleep(time.Millisecond); ch.Close(errors.New("bye")) })
			wg.Wait()
		}
	}
}
`, mockTransport, o.Name)
	return ".", src, true
}

func replayRaceCloseErr(ld *Loaded, o *Obligation, m map[string]string, smt string) (string, string, bool) {
	src := fmt.Sprintf(`package netty

//replay:race
import (
	"bytes"
	"context"
	"errors"
	"net"
	"sync"
	"testing"
	"time"

	"github.com/go-netty/go-netty/transport"
)
%s
// generated for %s
func TestReplayVerif(t *testing.T) {
	for _, queue := range []int{0, 8} {
		for try := 0; try < 50; try++ {
			mt := &mockTransport{}
			pl := NewPipeline()
			ch := newChannelWith(context.Background(), pl, mt, AsyncExecutor(), 1, queue, false)
			pl.(*pipeline).channel = ch
			var wg sync.WaitGroup
			wg.Add(2)
			go func() { defer wg.Done(); ch.Close(errors.New("bye")) }()
			go func() {
				defer wg.Done()
				ch.Writev([][]byte{[]byte("x")})
				ch.Write1([]byte("x"))
				ch.ReadFrom(bytes.NewReader([]byte("x")))
			}()
			wg.Wait()
		}
	}
}
`, mockTransport, o.Name)
	return ".", src, true
}

func replayRaceListener(ld *Loaded, o *Obligation, m map[string]string, smt string) (string, string, bool) {
	src := fmt.Sprintf(`package netty

//replay:race
import (
	"errors"
	"net"
	"sync"
	"testing"

	"github.com/go-netty/go-netty/transport"
)

type raceAcceptor struct {
	once sync.Once
	done chan struct{}
}

func (a *raceAcceptor) Accept() (transport.Transport, error) {
	<-a.done
	return nil, errors.New("acceptor closed")
}
func (a *raceAcceptor) Close() error { a.once.Do(func() { close(a.done) }); return nil }

type raceFactory struct{}

func (raceFactory) Schemes() transport.Schemes { return transport.Schemes{"race"} }
func (raceFactory) Connect(*transport.Options) (transport.Transport, error) {
	return nil, errors.New("unsupported")
}
func (raceFactory) Listen(*transport.Options) (transport.Acceptor, error) {
	return &raceAcceptor{done: make(chan struct{})}, nil
}

var _ net.Addr

// generated for %s
func TestReplayVerif(t *testing.T) {
	for try := 0; try < 50; try++ {
		bs := NewBootstrap(WithTransport(raceFactory{}))
		l := bs.Listen("race://127.0.0.1:0")
		done := make(chan struct{})
		l.Async(func(error) { close(done) })
		l.Close() // concurrently with the start of the accept loop
		bs.Shutdown()
		select {
		case <-done:
		default:
			// the accept loop may have started after Close: stop it
			for stopped := false; !stopped; {
				l.Close()
				select {
				case <-done:
					stopped = true
				default:
				}
			}
		}
	}
}
`, o.Name)
	return ".", src, true
}
