package main

import (
	"fmt"
	"regexp"
	"strings"
)

// C19: Put(buffer of capacity c) then Get(s) on a pool whose step is 2^k.
// Oracle (from the property statement): Get(n) returns a buffer of capacity >= n.

var kRe = regexp.MustCompile(`\[k=(\d+)\]`)

func init() {
	registerReplay(`^pool\.Pool\.Put\[.*\]#post:shard`, replayC19, func(vars []string, smt string) []string {
		var out []string
		for _, v := range vars {
			if strings.HasPrefix(v, "p.size!") || strings.HasPrefix(v, "all.s0!") {
				out = append(out, fmt.Sprintf("(assert (bvule %s (_ bv1048576 64)))", v))
			}
			if strings.HasPrefix(v, "all.i0!") {
				out = append(out, fmt.Sprintf("(assert (bvult %s (_ bv64 64)))", v)) // New(step*64) has 64 shards
			}
		}
		return out
	})
}

func replayC19(ld *Loaded, o *Obligation, m map[string]string, smt string) (string, string, bool) {
	capv, ok1 := modelInt(m, "p.size")
	s, ok2 := modelInt(m, "all.s0")
	km := kRe.FindStringSubmatch(o.Name)
	if !ok1 || !ok2 || km == nil {
		return "", "", false
	}
	var k int
	fmt.Sscanf(km[1], "%d", &k)
	if k > 20 || capv > 1<<26 || s > 1<<26 || capv < 0 || s < 0 {
		return "", "", false // would need absurd allocations
	}
	if strings.Contains(o.Name, "bytes.Buffer") {
		src := fmt.Sprintf(`package pbuffer

import (
	"bytes"
	"testing"
)

// generated from the model of %s
func TestReplayVerif(t *testing.T) {
	step := 1 << %d
	p := New(step * 64)
	for i := 0; i < 200; i++ {
		b := bytes.NewBuffer(make([]byte, 0, %d))
		p.Put(b)
		g := p.Get(%d)
		if g.Cap() < %d {
			t.Fatalf("REPLAY-CONFIRMED: Put(buffer of capacity %d) then Get(%d) on a pool with step %%d returned capacity %%d", step, g.Cap())
		}
	}
}
`, o.Name, k, capv, s, s, capv, s)
		return "utils/pool/pbuffer", src, true
	}
	src := fmt.Sprintf(`package pbytes

import "testing"

// generated from the model of %s
func TestReplayVerif(t *testing.T) {
	step := 1 << %d
	p := New(step * 64)
	for i := 0; i < 200; i++ {
		b := make([]byte, 0, %d)
		p.Put(&b)
		g := p.Get(%d)
		if cap(*g) < %d {
			t.Fatalf("REPLAY-CONFIRMED: Put(slice of capacity %d) then Get(%d) on a pool with step %%d returned capacity %%d", step, cap(*g))
		}
	}
}
`, o.Name, k, capv, s, s, capv, s)
	return "utils/pool/pbytes", src, true
}
