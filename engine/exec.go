package main

// Forward symbolic execution of go/ssa functions (DESIGN.md 2.2). Paths are
// enumerated explicitly; they are cut at loop headers (invariants) and at
// calls (callee contracts). Continuation-passing style: every instruction
// that can fork calls its continuation once per outcome.

import (
	"fmt"
	"go/ast"
	"go/constant"
	"go/token"
	"go/types"
	"math/big"
	"sort"
	"strings"

	"golang.org/x/tools/go/ssa"
)

var maxLen = new(big.Int).Lsh(big.NewInt(1), 48) // address-space assumption on lengths of existing slices/strings

type EngineError struct{ Msg string }

func (e *EngineError) Error() string { return e.Msg }

func engineErr(format string, args ...interface{}) {
	panic(&EngineError{fmt.Sprintf(format, args...)})
}

type deferred struct {
	call *ssa.CallCommon
	args []*Val
	fnv  *Val
	site ssa.Instruction
}

type Frame struct {
	parent    *Frame // the frame this one is executed in place of a call in (nil for the function under verification)
	id        int
	fn        *ssa.Function
	contract  *Contract
	deferOf   *Frame
	depth     int
	binds     []*Val
	prefix    string // obligation-name prefix for inlined frames
	entryHeap map[string]Tm
	mode      Mode
}

type exitK func(st *State, res []*Val, pan *Val)

type Exec struct {
	orphanGiven map[string]int
	ld       *Loaded
	prog     *ssa.Program
	cs       *Contracts
	fnByKey  map[string]*ssa.Function
	typeIDs  map[string]int
	typeByID map[int]types.Type
	ifaceSet map[string]*types.Interface
	ufDecls  map[string]string
	ufOrder  []string
	axioms   []string

	// current function under verification
	cur      *Contract
	curFn    *ssa.Function
	mode     Mode
	obls     map[string]*Obligation
	oblOrder []string
	paths    int
	maxPaths int
	frameSeq int
	used     map[string]bool // contracts used at call sites (for transitive closure / evidence)
	faultOrd map[string]int
	siteOrd  map[ssa.Instruction]int
	logf     func(string, ...interface{})
	forallVs map[string]*Val
	sentinel map[string]bool
	tscope     *ssa.Function // function whose type parameters are in scope while evaluating a callee contract
	falseAssumes int
	curSuffix  string
	inputTerms []string
}

func pow2(k int) *big.Int { return new(big.Int).Lsh(big.NewInt(1), uint(k)) }

func (x *Exec) typeID(t types.Type) int {
	k := typeKey(t)
	if id, ok := x.typeIDs[k]; ok {
		return id
	}
	id := len(x.typeIDs) + 1
	x.typeIDs[k] = id
	x.typeByID[id] = t
	return id
}

func (x *Exec) declUF(name, decl string) {
	if _, ok := x.ufDecls[name]; !ok {
		x.ufDecls[name] = decl
		x.ufOrder = append(x.ufOrder, name)
	}
}

func (x *Exec) implUF(it types.Type) string {
	k := typeKey(it)
	n := "impl_" + sanitize(k)
	if _, ok := x.ifaceSet[k]; !ok {
		x.ifaceSet[k] = it.Underlying().(*types.Interface)
		x.declUF(n, fmt.Sprintf("(declare-fun %s (Int) Bool)", n))
	}
	return n
}

// fnKey is the canonical key of a function: RelString(nil) of its origin.
// renamedFns: real key of an unexported function that was renamed -> the key its contract uses (see
// loadRepo): everything downstream (contract lookup, event names, the function lists of static
// clauses) sees the function under the name the contracts know.
var renamedFns = map[string]string{}

func fnKey(fn *ssa.Function) string {
	k := realFnKey(fn)
	if len(renamedFns) == 0 {
		return k
	}
	if o, ok := renamedFns[k]; ok {
		return o
	}
	if i := strings.Index(k, "$"); i > 0 {
		if o, ok := renamedFns[k[:i]]; ok {
			return o + k[i:]
		}
	}
	return k
}

func realFnKey(fn *ssa.Function) string {
	if o := fn.Origin(); o != nil {
		// anonymous functions inside instantiated generics: parent origin + suffix
		return o.RelString(nil)
	}
	if p := fn.Parent(); p != nil && p.Origin() != nil {
		// closure of an instantiation: name it after the origin's closure
		name := fn.Name()
		if i := strings.LastIndex(name, "$"); i >= 0 {
			return p.Origin().RelString(nil) + name[i:]
		}
	}
	return fn.RelString(nil)
}

func (x *Exec) contractFor(fn *ssa.Function) *Contract {
	return x.cs.Funcs[fnKey(fn)]
}

// ---------------------------------------------------------------------------
// values of SSA operands

func (x *Exec) constVal(st *State, c *ssa.Const) *Val {
	m := st.m
	t := c.Type()
	if c.Value == nil {
		// zero value / nil
		if tp, ok := t.(*types.Basic); ok && tp.Kind() == types.UntypedNil {
			return &Val{T: t, K: KPtr, S: Tm{"0", SInt}}
		}
		return m.zero(t)
	}
	switch kindOf(t) {
	case KBool:
		return scalar(t, KBool, boolTm(constant.BoolVal(c.Value)))
	case KInt:
		ii, _ := basicIntInfo(t)
		return scalar(t, KInt, m.constInt(c.Value, ii))
	case KString:
		return x.stringConst(st, constant.StringVal(c.Value), t)
	case KFloat:
		return scalar(t, KFloat, Tm{fmt.Sprint(x.floatID(c.Value.ExactString())), SInt})
	}
	engineErr("constant of unsupported type %s", t)
	return nil
}

var floatIDs = map[string]int{}

func (x *Exec) floatID(s string) int {
	if id, ok := floatIDs[s]; ok {
		return id
	}
	floatIDs[s] = len(floatIDs) + 1
	return floatIDs[s]
}

var strConstIDs = map[string]int{}

// stringConst: constant strings live at negative references, content asserted
// for short strings.
func (x *Exec) stringConst(st *State, s string, t types.Type) *Val {
	m := st.m
	id, ok := strConstIDs[s]
	if !ok {
		id = len(strConstIDs) + 1
		strConstIDs[s] = id
	}
	arr := tm(SInt, "(- %d)", 1000+id)
	if s == "" {
		arr = Tm{"0", SInt}
	}
	v := &Val{T: t, K: KString, Fs: []*Val{scalar(nil, KPtr, arr), scalar(nil, KInt, m.idxLit(0)), scalar(nil, KInt, m.idxLit(int64(len(s))))}}
	if len(s) > 0 && len(s) <= 32 {
		key := elemKey(types.Typ[types.Uint8]) + "|"
		inner := ArrOf(m.idx(), m.intSort(intInfo{8, false}))
		// strings are immutable: the fact is about the initial element heap and every later version
		h := st.heapGet(key, ArrOf(SInt, inner))
		for i := 0; i < len(s); i++ {
			st.assume(eq(sel(sel(h, arr, inner), m.idxLit(int64(i)), m.intSort(intInfo{8, false})), m.lit(big.NewInt(int64(s[i])), intInfo{8, false})))
		}
	}
	return v
}

func (x *Exec) operand(st *State, fr *Frame, v ssa.Value) *Val {
	switch v := v.(type) {
	case *ssa.Const:
		return x.constVal(st, v)
	case *ssa.Function:
		return x.funcVal(st, v, nil)
	case *ssa.Global:
		name := v.Pkg.Pkg.Path() + "." + v.Name()
		pt := v.Type().(*types.Pointer)
		x.noteGlobal(name, pt.Elem())
		return &Val{T: v.Type(), K: KPtr, S: tm(SInt, "(- %d)", 100000+x.globalID(name)), P: &Ptr{Kind: PGlobal, Glob: name, Root: pt.Elem(), Base: Tm{"0", SInt}}}
	case *ssa.Builtin:
		engineErr("builtin %s used as value", v.Name())
	case *ssa.FreeVar:
		for i, fv := range fr.fn.FreeVars {
			if fv == v {
				if i < len(fr.binds) {
					return fr.binds[i]
				}
			}
		}
		engineErr("unbound free variable %s in %s", v.Name(), fr.fn)
	}
	if val, ok := st.F(fr).vals[v]; ok {
		return val
	}
	engineErr("no value for %s (%T) in %s", v.Name(), v, fr.fn)
	return nil
}

var globalIDs = map[string]int{}

func (x *Exec) globalID(name string) int {
	if id, ok := globalIDs[name]; ok {
		return id
	}
	globalIDs[name] = len(globalIDs) + 1
	return globalIDs[name]
}

var fnIDs = map[string]int{}

func (x *Exec) fnID(fn *ssa.Function) int {
	k := fn.String()
	if id, ok := fnIDs[k]; ok {
		return id
	}
	fnIDs[k] = len(fnIDs) + 1
	return fnIDs[k]
}

func (x *Exec) funcVal(st *State, fn *ssa.Function, binds []*Val) *Val {
	env := Tm{"0", SInt}
	if len(binds) > 0 {
		env = st.newRef("env")
	}
	return &Val{T: fn.Signature, K: KFunc, Fs: []*Val{scalar(nil, KInt, Tm{fmt.Sprint(x.fnID(fn)), SInt}), scalar(nil, KPtr, env)},
		Cl: &Closure{Fn: fn, Binds: binds}}
}

// ---------------------------------------------------------------------------
// control flow

type loopInfo struct {
	headers map[*ssa.BasicBlock]int // header -> ordinal
	body    map[*ssa.BasicBlock][]*ssa.BasicBlock
}

var loopCache = map[*ssa.Function]*loopInfo{}

func loopsOf(fn *ssa.Function) *loopInfo {
	if li, ok := loopCache[fn]; ok {
		return li
	}
	li := &loopInfo{headers: map[*ssa.BasicBlock]int{}, body: map[*ssa.BasicBlock][]*ssa.BasicBlock{}}
	var hs []*ssa.BasicBlock
	for _, b := range fn.Blocks {
		for _, s := range b.Succs {
			if s.Dominates(b) { // back edge b -> s
				if _, ok := li.body[s]; !ok {
					hs = append(hs, s)
					li.body[s] = nil
				}
				// natural loop of the back edge
				seen := map[*ssa.BasicBlock]bool{s: true}
				var stack []*ssa.BasicBlock
				if !seen[b] {
					seen[b] = true
					stack = append(stack, b)
				}
				for len(stack) > 0 {
					n := stack[len(stack)-1]
					stack = stack[:len(stack)-1]
					for _, p := range n.Preds {
						if !seen[p] {
							seen[p] = true
							stack = append(stack, p)
						}
					}
				}
				have := map[*ssa.BasicBlock]bool{}
				for _, e := range li.body[s] {
					have[e] = true
				}
				for blk := range seen {
					if !have[blk] {
						li.body[s] = append(li.body[s], blk)
					}
				}
			}
		}
	}
	sort.Slice(hs, func(i, j int) bool { return hs[i].Index < hs[j].Index })
	for i, h := range hs {
		li.headers[h] = i
		sort.Slice(li.body[h], func(a, b int) bool { return li.body[h][a].Index < li.body[h][b].Index })
	}
	loopCache[fn] = li
	return li
}

func (x *Exec) newFrame(fn *ssa.Function, parent *Frame, st *State) *Frame {
	x.frameSeq++
	fr := &Frame{id: x.frameSeq, fn: fn, mode: st.m}
	fr.contract = x.contractFor(fn)
	if parent != nil {
		fr.depth = parent.depth + 1
		fr.parent = parent
	}
	if fr.depth > 16 {
		engineErr("inlining depth exceeded at %s", fn)
	}
	return fr
}

// runFunction executes fn's body in a fresh frame.
func (x *Exec) runFunction(st *State, parent *Frame, fn *ssa.Function, args []*Val, binds []*Val, deferOf *Frame, prefix string, k exitK) {
	if fn.Blocks == nil {
		engineErr("cannot inline external function %s (no contract)", fn)
	}
	fr := x.newFrame(fn, parent, st)
	fr.binds = binds
	fr.deferOf = deferOf
	fr.prefix = prefix
	fr.entryHeap = st.heapCopy()
	if len(args) != len(fn.Params) {
		engineErr("call of %s with %d args, want %d", fn, len(args), len(fn.Params))
	}
	for i, p := range fn.Params {
		st.F(fr).vals[p] = args[i]
		st.F(fr).names[p.Name()] = args[i]
	}
	x.runBlock(st, fr, fn.Blocks[0], nil, k)
}

func (x *Exec) runBlock(st *State, fr *Frame, b *ssa.BasicBlock, pred *ssa.BasicBlock, k exitK) {
	if st.dead {
		return
	}
	li := loopsOf(fr.fn)
	// leaving a loop: its exit clauses are obligations on this edge
	if pred != nil {
		for h, ord := range li.headers {
			if !x.isActiveHeader(st, fr, h) || b == h {
				continue
			}
			inBody := func(q *ssa.BasicBlock) bool {
				if q == h {
					return true
				}
				for _, bb := range li.body[h] {
					if bb == q {
						return true
					}
				}
				return false
			}
			if inBody(pred) && !inBody(b) {
				if spec := x.loopSpec(fr, ord); spec != nil && len(spec.Exit) > 0 {
					env := x.frameEnv(st, fr)
					for i, cl := range spec.Exit {
						lbl := cl.Label
						if lbl == "" {
							lbl = fmt.Sprint(i)
						}
						g, note := safeEval(env, cl)
						x.emit(st, fmt.Sprintf("loop_exit:%sloop%d.%s", fr.prefix, ord, lbl), "loop_exit", g,
							fmt.Sprintf("loop %d exit condition %q in %s%s", ord, cl.Src, fr.fn.Name(), note))
					}
				}
			}
		}
	}
	if ord, isHeader := li.headers[b]; isHeader {
		if x.loopHeader(st, fr, b, pred, ord, li, k) {
			return
		}
	}
	// phis
	if pred != nil {
		idx := -1
		for i, p := range b.Preds {
			if p == pred {
				idx = i
			}
		}
		newVals := map[ssa.Value]*Val{}
		for _, in := range b.Instrs {
			phi, ok := in.(*ssa.Phi)
			if !ok {
				break
			}
			if _, havocked := st.F(fr).vals[phi]; havocked && x.isActiveHeader(st, fr, b) && !x.fromBackEdge(b, pred) {
				// header phi already havocked by loopHeader
				continue
			}
			newVals[phi] = x.operand(st, fr, phi.Edges[idx])
		}
		for p, v := range newVals {
			st.F(fr).vals[p] = v
			if c := p.(*ssa.Phi).Comment; c != "" {
				st.F(fr).names[c] = v
			}
		}
	}
	x.runInstrs(st, fr, b, 0, k)
}

func (x *Exec) fromBackEdge(h, pred *ssa.BasicBlock) bool {
	return pred != nil && h.Dominates(pred)
}

func (x *Exec) isActiveHeader(st *State, fr *Frame, b *ssa.BasicBlock) bool {
	for _, l := range st.loops {
		if l.frameID == fr.id && l.header == b.Index {
			return true
		}
	}
	return false
}

func (x *Exec) runInstrs(st *State, fr *Frame, b *ssa.BasicBlock, i int, k exitK) {
	for ; i < len(b.Instrs); i++ {
		in := b.Instrs[i]
		if _, ok := in.(*ssa.Phi); ok {
			continue
		}
		if x.simple(st, fr, in) {
			continue
		}
		// instructions that may fork or transfer control
		next := i + 1
		x.complex(st, fr, in, b, func(st2 *State) { x.runInstrs(st2, fr, b, next, k) }, k)
		return
	}
}

// setVal records the value of an SSA instruction.
func (x *Exec) setVal(st *State, fr *Frame, v ssa.Value, val *Val) {
	if val.T == nil {
		val.T = v.Type()
	}
	st.F(fr).vals[v] = val
}

func (x *Exec) pathLimit() {
	x.paths++
	if x.paths > x.maxPaths {
		engineErr("path limit (%d) exceeded in %s", x.maxPaths, x.curFn)
	}
}

// branch forks the path on cond.
func (x *Exec) branch(st *State, cond Tm, kt func(*State), kf func(*State)) {
	switch cond.S {
	case "true":
		kt(st)
		return
	case "false":
		kf(st)
		return
	}
	x.pathLimit()
	st2 := st.clone()
	st.assume(cond)
	kt(st)
	st2.assume(not(cond))
	kf(st2)
}

// fault emits a #nofault obligation for an implicit run-time panic and
// continues under the assumption that it did not happen.
func (x *Exec) fault(st *State, fr *Frame, in ssa.Instruction, kind string, safe Tm) {
	if safe.S == "true" {
		return
	}
	ord := x.siteOrdinal(fr.fn, in, kind)
	name := fmt.Sprintf("nofault:%s%s@%d", fr.prefix, kind, ord)
	x.emit(st, name, "nofault", safe, fmt.Sprintf("%s in %s: %s", kind, fr.fn.Name(), in.String()))
	st.assume(safe)
}

// siteOrdinal numbers instructions of the same kind within a function in block order.
func (x *Exec) siteOrdinal(fn *ssa.Function, in ssa.Instruction, kind string) int {
	key := fn.String() + "|" + kind
	if x.siteOrd == nil {
		x.siteOrd = map[ssa.Instruction]int{}
	}
	if n, ok := x.siteOrd[in]; ok {
		return n
	}
	// assign ordinals lazily but deterministically: count instructions of any type preceding
	n := 0
	for _, b := range fn.Blocks {
		for _, i2 := range b.Instrs {
			if i2 == in {
				x.siteOrd[in] = n
				_ = key
				return n
			}
			if sameFaultClass(i2, kind) {
				n++
			}
		}
	}
	return n
}

func sameFaultClass(in ssa.Instruction, kind string) bool {
	switch kind {
	case "index":
		switch in.(type) {
		case *ssa.IndexAddr, *ssa.Index:
			return true
		}
	case "slice":
		_, ok := in.(*ssa.Slice)
		return ok
	case "nil":
		switch v := in.(type) {
		case *ssa.FieldAddr, *ssa.Store:
			return true
		case *ssa.UnOp:
			return v.Op == token.MUL
		}
	case "typeassert":
		_, ok := in.(*ssa.TypeAssert)
		return ok
	case "div":
		if b, ok := in.(*ssa.BinOp); ok {
			return b.Op == token.QUO || b.Op == token.REM
		}
	case "make":
		switch in.(type) {
		case *ssa.MakeSlice, *ssa.MakeChan:
			return true
		}
	case "overflow":
		_, ok := in.(*ssa.BinOp)
		return ok
	case "call":
		_, ok := in.(*ssa.Call)
		return ok
	case "shift":
		if b, ok := in.(*ssa.BinOp); ok {
			return b.Op == token.SHL || b.Op == token.SHR
		}
	}
	return false
}

// simple executes instructions that neither fork nor transfer control.
// Returns false if the instruction must be handled by complex().
func (x *Exec) simple(st *State, fr *Frame, in ssa.Instruction) bool {
	m := st.m
	switch in := in.(type) {
	case *ssa.DebugRef:
		if _, isIdent := in.Expr.(*ast.Ident); !isIdent {
			return true
		}
		if v, ok := in.Object().(*types.Var); !ok || v.IsField() {
			return true
		}
		if !in.IsAddr {
			if obj := in.Object(); obj != nil {
				if v, ok := st.F(fr).vals[in.X]; ok {
					st.F(fr).names[obj.Name()] = v
				} else if c, ok := in.X.(*ssa.Const); ok {
					st.F(fr).names[obj.Name()] = x.constVal(st, c)
				}
			}
		} else if obj := in.Object(); obj != nil {
			if v, ok := st.F(fr).vals[in.X]; ok {
				st.F(fr).allocs[obj.Name()] = v
			}
		}
		return true
	case *ssa.Alloc:
		pt := in.Type().(*types.Pointer)
		v := st.allocObject(in.Type(), pt.Elem())
		x.setVal(st, fr, in, v)
		if _, isArr := pt.Elem().Underlying().(*types.Array); !isArr && !allocEscapes(in) {
			st.locals = append(st.locals, ptrOf(v))
		}
		if in.Comment != "" {
			st.F(fr).allocs[in.Comment] = v
		}
		return true
	case *ssa.BinOp:
		x.setVal(st, fr, in, x.binop(st, fr, in))
		return true
	case *ssa.UnOp:
		switch in.Op {
		case token.MUL: // load
			// a package initialiser runs exactly once (Go spec, "Package initialization"): its
			// guard word is false when the initialiser under contract is entered
			if g, isG := in.X.(*ssa.Global); isG && g.Name() == "init$guard" && isPkgInit(fr.fn) && g.Pkg == fr.fn.Pkg {
				x.setVal(st, fr, in, scalar(in.Type(), KBool, tFalse))
				return true
			}
			pv := x.operand(st, fr, in.X)
			x.nilCheck(st, fr, in, pv)
			x.noteAccess(st, fr, in, pv, false)
			lv := st.load(ptrOf(pv))
			if lv.K == KFunc {
				x.attachFieldClosure(st, ptrOf(pv), lv)
			}
			x.setVal(st, fr, in, lv)
			return true
		case token.NOT:
			a := x.operand(st, fr, in.X)
			x.setVal(st, fr, in, scalar(in.Type(), KBool, not(a.S)))
			return true
		case token.SUB:
			a := x.operand(st, fr, in.X)
			if a.K != KInt {
				engineErr("negation of non-integer in %s", fr.fn)
			}
			x.setVal(st, fr, in, scalar(in.Type(), KInt, st.define(in.Name(), m.neg(a.S))))
			return true
		case token.XOR:
			a := x.operand(st, fr, in.X)
			ii, _ := basicIntInfo(in.Type())
			t, _ := m.bitnot(a.S, ii)
			x.setVal(st, fr, in, scalar(in.Type(), KInt, st.define(in.Name(), t)))
			return true
		case token.ARROW:
			return false
		}
	case *ssa.Store:
		pv := x.operand(st, fr, in.Addr)
		v := x.operand(st, fr, in.Val)
		x.nilCheck(st, fr, in, pv)
		x.noteAccess(st, fr, in, pv, true)
		if v.K == KPtr && v.P != nil && (v.P.Kind != PObj || len(v.P.Path) != 0) && v.P.Kind != PGlobal {
			engineErr("interior pointer stored to the heap in %s: %s", fr.fn, in)
		}
		st.storeTo(ptrOf(pv), x.coerce(st, v, deref(in.Addr.Type())))
		if v.K == KFunc {
			x.noteClosureStore(st, fr, ptrOf(pv), v)
		}
		x.afterStore(st, fr, in, ptrOf(pv))
		return true
	case *ssa.FieldAddr:
		pv := x.operand(st, fr, in.X)
		x.nilCheck(st, fr, in, pv)
		p := ptrOf(pv)
		x.setVal(st, fr, in, &Val{T: in.Type(), K: KPtr, S: p.Base, P: p.withField(in.Field)})
		return true
	case *ssa.Field:
		sv := x.operand(st, fr, in.X)
		x.setVal(st, fr, in, sv.Fs[in.Field])
		return true
	case *ssa.IndexAddr:
		xv := x.operand(st, fr, in.X)
		iv := x.toIdx(st, x.operand(st, fr, in.Index))
		st.trigger(iv)
		switch xv.K {
		case KSlice:
			x.fault(st, fr, in, "index", and(m.le(m.idxLit(0), iv), m.lt(iv, xv.ln())))
			et := in.X.Type().Underlying().(*types.Slice).Elem()
			pos := st.define("ix", m.add(xv.off(), iv))
			x.setVal(st, fr, in, &Val{T: in.Type(), K: KPtr, S: xv.arr(), P: st.elemPtr(et, xv.arr(), pos)})
		case KPtr: // pointer to array
			at := deref(in.X.Type()).Underlying().(*types.Array)
			x.nilCheck(st, fr, in, xv)
			x.fault(st, fr, in, "index", and(m.le(m.idxLit(0), iv), m.lt(iv, m.idxLit(at.Len()))))
			if xv.P != nil && (xv.P.Kind != PObj || len(xv.P.Path) != 0) {
				engineErr("array inside a struct is not supported (%s)", fr.fn)
			}
			x.setVal(st, fr, in, &Val{T: in.Type(), K: KPtr, S: xv.S, P: st.elemPtr(at.Elem(), xv.S, iv)})
		default:
			engineErr("IndexAddr on %v", xv.K)
		}
		return true
	case *ssa.Index:
		xv := x.operand(st, fr, in.X)
		iv := x.toIdx(st, x.operand(st, fr, in.Index))
		switch xv.K {
		case KString:
			x.fault(st, fr, in, "index", and(m.le(m.idxLit(0), iv), m.lt(iv, xv.ln())))
			p := st.elemPtr(types.Typ[types.Uint8], xv.arr(), m.add(xv.off(), iv))
			x.setVal(st, fr, in, st.load(p))
		case KArray:
			at := in.X.Type().Underlying().(*types.Array)
			x.fault(st, fr, in, "index", and(m.le(m.idxLit(0), iv), m.lt(iv, m.idxLit(at.Len()))))
			ls := m.leaves(at.Elem())
			ts := make([]Tm, len(ls))
			for i, l := range ls {
				ts[i] = sel(xv.Fs[i].S, iv, l.sort)
			}
			x.setVal(st, fr, in, m.build(at.Elem(), ts))
		default:
			engineErr("Index on %v", xv.K)
		}
		return true
	case *ssa.Slice:
		x.setVal(st, fr, in, x.sliceOp(st, fr, in))
		return true
	case *ssa.MakeSlice:
		ln := x.toIdx(st, x.operand(st, fr, in.Len))
		cp := x.toIdx(st, x.operand(st, fr, in.Cap))
		x.fault(st, fr, in, "make", and(m.le(m.idxLit(0), ln), m.le(ln, cp), m.le(cp, m.lit(maxLen, goInt))))
		et := in.Type().Underlying().(*types.Slice).Elem()
		ref := st.newRef("mk")
		st.zeroElems(et, ref)
		x.setVal(st, fr, in, x.mkSlice(in.Type(), ref, m.idxLit(0), ln, cp))
		return true
	case *ssa.Convert:
		x.setVal(st, fr, in, x.convert(st, fr, in))
		return true
	case *ssa.ChangeType:
		v := x.operand(st, fr, in.X)
		nv := *v
		nv.T = in.Type()
		x.setVal(st, fr, in, &nv)
		return true
	case *ssa.ChangeInterface:
		v := x.operand(st, fr, in.X)
		nv := *v
		nv.T = in.Type()
		x.setVal(st, fr, in, &nv)
		return true
	case *ssa.MakeInterface:
		x.setVal(st, fr, in, x.makeInterface(st, x.operand(st, fr, in.X), in.X.Type(), in.Type()))
		return true
	case *ssa.MakeClosure:
		fn := in.Fn.(*ssa.Function)
		// a method value (c.writeOnce) handed to someone else to run: the method's own contract
		// belongs to what is being relied on
		if strings.HasSuffix(fn.Name(), "$bound") {
			if m, ok := fn.Object().(*types.Func); ok {
				if mf := x.prog.FuncValue(m); mf != nil && x.cs.Funcs[fnKey(mf)] != nil {
					x.used[fnKey(mf)] = true
				}
			}
		}
		var binds []*Val
		for _, b := range in.Bindings {
			binds = append(binds, x.operand(st, fr, b))
		}
		x.setVal(st, fr, in, x.funcVal(st, fn, binds))
		return true
	case *ssa.Extract:
		tv := x.operand(st, fr, in.Tuple)
		x.setVal(st, fr, in, tv.Fs[in.Index])
		return true
	case *ssa.TypeAssert:
		if in.CommaOk {
			x.setVal(st, fr, in, x.typeAssertOk(st, in, x.operand(st, fr, in.X)))
			return true
		}
		xv := x.operand(st, fr, in.X)
		ok, val := x.typeTest(st, xv, in.AssertedType)
		x.fault(st, fr, in, "typeassert", ok)
		x.setVal(st, fr, in, val)
		return true
	case *ssa.MakeMap:
		ref := st.newRef("map")
		x.setVal(st, fr, in, scalar(in.Type(), KMap, ref))
		x.mapInit(st, in.Type(), ref)
		return true
	case *ssa.MakeChan:
		sz := x.toIdx(st, x.operand(st, fr, in.Size))
		x.fault(st, fr, in, "make", m.le(m.idxLit(0), sz))
		ref := st.newRef("chan")
		x.setVal(st, fr, in, scalar(in.Type(), KChan, ref))
		x.chanInit(st, ref, sz)
		return true
	case *ssa.Lookup:
		return x.lookup(st, fr, in)
	case *ssa.MapUpdate:
		return x.mapUpdate(st, fr, in)
	}
	return false
}

func deref(t types.Type) types.Type {
	return t.Underlying().(*types.Pointer).Elem()
}

func (x *Exec) nilCheck(st *State, fr *Frame, in ssa.Instruction, pv *Val) {
	if pv.P != nil && pv.P.Kind == PGlobal {
		return
	}
	if pv.P != nil && pv.P.Kind == PElem {
		return // derived from a checked IndexAddr
	}
	x.fault(st, fr, in, "nil", not(eq(pv.S, Tm{"0", SInt})))
}

func (x *Exec) mkSlice(t types.Type, arr, off, ln, cp Tm) *Val {
	return &Val{T: t, K: KSlice, Fs: []*Val{scalar(nil, KPtr, arr), scalar(nil, KInt, off), scalar(nil, KInt, ln), scalar(nil, KInt, cp)}}
}

func (x *Exec) mkString(t types.Type, arr, off, ln Tm) *Val {
	return &Val{T: t, K: KString, Fs: []*Val{scalar(nil, KPtr, arr), scalar(nil, KInt, off), scalar(nil, KInt, ln)}}
}

// toIdx converts an integer value of any Go integer type to the index sort.
func (x *Exec) toIdx(st *State, v *Val) Tm {
	if v.K != KInt {
		engineErr("index of kind %v", v.K)
	}
	ii := goInt
	if v.T != nil {
		if i2, ok := basicIntInfo(v.T); ok {
			ii = i2
		}
	}
	return st.m.convert(v.S, ii, goInt)
}

func (x *Exec) coerce(st *State, v *Val, t types.Type) *Val {
	// untyped nil to a concrete nilable type
	if b, ok := v.T.(*types.Basic); ok && b.Kind() == types.UntypedNil {
		return st.m.zero(t)
	}
	return v
}

func (x *Exec) sliceOp(st *State, fr *Frame, in *ssa.Slice) *Val {
	m := st.m
	xv := x.operand(st, fr, in.X)
	var lo, hi, mx Tm
	has := func(v ssa.Value) bool { return v != nil }
	if has(in.Low) {
		lo = x.toIdx(st, x.operand(st, fr, in.Low))
	} else {
		lo = m.idxLit(0)
	}
	switch xv.K {
	case KSlice:
		if has(in.High) {
			hi = x.toIdx(st, x.operand(st, fr, in.High))
		} else {
			hi = xv.ln()
		}
		if has(in.Max) {
			mx = x.toIdx(st, x.operand(st, fr, in.Max))
		} else {
			mx = xv.cp()
		}
		x.fault(st, fr, in, "slice", and(m.le(m.idxLit(0), lo), m.le(lo, hi), m.le(hi, mx), m.le(mx, xv.cp())))
		return x.mkSlice(in.Type(), xv.arr(), st.define("so", m.add(xv.off(), lo)), st.define("sl", m.sub(hi, lo)), st.define("sc", m.sub(mx, lo)))
	case KString:
		if has(in.High) {
			hi = x.toIdx(st, x.operand(st, fr, in.High))
		} else {
			hi = xv.ln()
		}
		x.fault(st, fr, in, "slice", and(m.le(m.idxLit(0), lo), m.le(lo, hi), m.le(hi, xv.ln())))
		return x.mkString(in.Type(), xv.arr(), st.define("so", m.add(xv.off(), lo)), st.define("sl", m.sub(hi, lo)))
	case KPtr:
		at := deref(in.X.Type()).Underlying().(*types.Array)
		x.nilCheck(st, fr, in, xv)
		n := m.idxLit(at.Len())
		if has(in.High) {
			hi = x.toIdx(st, x.operand(st, fr, in.High))
		} else {
			hi = n
		}
		if has(in.Max) {
			mx = x.toIdx(st, x.operand(st, fr, in.Max))
		} else {
			mx = n
		}
		x.fault(st, fr, in, "slice", and(m.le(m.idxLit(0), lo), m.le(lo, hi), m.le(hi, mx), m.le(mx, n)))
		if xv.P != nil && (xv.P.Kind != PObj || len(xv.P.Path) != 0) {
			engineErr("slicing an array inside a struct is not supported (%s)", fr.fn)
		}
		return x.mkSlice(in.Type(), xv.S, lo, st.define("sl", m.sub(hi, lo)), st.define("sc", m.sub(mx, lo)))
	}
	engineErr("Slice of %v", xv.K)
	return nil
}

func (x *Exec) binop(st *State, fr *Frame, in *ssa.BinOp) *Val {
	m := st.m
	a := x.operand(st, fr, in.X)
	b := x.operand(st, fr, in.Y)
	switch in.Op {
	case token.EQL, token.NEQ:
		var e Tm
		a2, b2 := x.coerce(st, a, in.Y.Type()), x.coerce(st, b, in.X.Type())
		if a2.K == KSlice || a2.K == KFunc || a2.K == KMap {
			// only comparison with nil is legal
			if isNilConst(in.Y) {
				e = isNilTm(a2)
			} else {
				e = isNilTm(b2)
			}
		} else if a2.K == KIface && b2.K == KIface {
			if isNilConst(in.Y) {
				e = isNilTm(a2)
			} else if isNilConst(in.X) {
				e = isNilTm(b2)
			} else {
				e = and(eq(a2.ityp(), b2.ityp()), eq(a2.ival(), b2.ival()))
			}
		} else if a2.K == KString {
			e = x.stringEq(st, a2, b2)
		} else {
			e = valEq(a2, b2)
		}
		if in.Op == token.NEQ {
			e = not(e)
		}
		return scalar(in.Type(), KBool, st.define(in.Name(), e))
	case token.LSS, token.LEQ, token.GTR, token.GEQ:
		if a.K != KInt {
			engineErr("ordered comparison of %v in %s", a.K, fr.fn)
		}
		ii, _ := basicIntInfo(in.X.Type())
		return scalar(in.Type(), KBool, st.define(in.Name(), m.cmp(in.Op, a.S, b.S, ii)))
	case token.LAND, token.LOR:
		engineErr("unexpected logical binop")
	}
	if a.K == KBool {
		switch in.Op {
		case token.AND:
			return scalar(in.Type(), KBool, and(a.S, b.S))
		case token.OR:
			return scalar(in.Type(), KBool, or(a.S, b.S))
		case token.XOR:
			return scalar(in.Type(), KBool, not(eq(a.S, b.S)))
		}
	}
	if a.K == KString && in.Op == token.ADD {
		engineErr("string concatenation is not supported (%s)", fr.fn)
	}
	if a.K != KInt {
		engineErr("binop %s on %v in %s", in.Op, a.K, fr.fn)
	}
	ii, _ := basicIntInfo(in.Type())
	bi, _ := basicIntInfo(in.Y.Type())
	bs := b.S
	if in.Op == token.SHL || in.Op == token.SHR {
		if bi.signed {
			x.fault(st, fr, in, "shift", m.cmp(token.GEQ, b.S, m.lit(big.NewInt(0), bi), bi))
		}
	}
	res, needRange, divisor, ok := m.arith(in.Op, a.S, bs, ii, bi)
	if !ok && !m.BV {
		// bit operations and variable shifts on mathematical integers: an uninterpreted result of
		// the operand type (nothing is known about it beyond its range) - what depends on its
		// value becomes an undischarged obligation of that function instead of an engine error
		r := st.freshVal("bitop."+in.Name(), in.Type())
		st.assume(m.inRange(r.S, ii))
		switch in.Op {
		case token.AND:
			// for non-negative operands the result is bounded by both
			st.assume(tm(SBool, "(=> (and (>= %s 0) (>= %s 0)) (and (>= %s 0) (<= %s %s) (<= %s %s)))", a.S.S, bs.S, r.S.S, r.S.S, a.S.S, r.S.S, bs.S))
		case token.OR:
			st.assume(tm(SBool, "(=> (and (>= %s 0) (>= %s 0)) (and (>= %s %s) (>= %s %s)))", a.S.S, bs.S, r.S.S, a.S.S, r.S.S, bs.S))
		}
		return r
	}
	if !ok {
		engineErr("operator %s is not supported in mode %s (%s: %s)", in.Op, m, fr.fn, in)
	}
	if divisor {
		x.fault(st, fr, in, "div", not(eq(b.S, m.lit(big.NewInt(0), ii))))
	}
	if needRange && m.Wrap {
		switch in.Op {
		case token.ADD, token.SUB:
			res = m.wrapAddSub(st.define(in.Name(), res), ii)
		default:
			res = m.convert(st.define(in.Name(), res), intInfo{128, true}, ii)
		}
		needRange = false
	}
	res = st.define(in.Name(), res)
	if needRange && !m.BV {
		ord := x.siteOrdinal(fr.fn, in, "overflow")
		x.emit(st, fmt.Sprintf("overflow:%s%s@%d", fr.prefix, opName(in.Op), ord), "overflow", m.inRange(res, ii),
			fmt.Sprintf("%s in %s", in.String(), fr.fn.Name()))
		st.assume(m.inRange(res, ii))
	}
	return scalar(in.Type(), KInt, res)
}

func opName(op token.Token) string {
	switch op {
	case token.ADD:
		return "add"
	case token.SUB:
		return "sub"
	case token.MUL:
		return "mul"
	case token.QUO:
		return "div"
	case token.SHL:
		return "shl"
	}
	return "op"
}

func isNilConst(v ssa.Value) bool {
	c, ok := v.(*ssa.Const)
	return ok && c.Value == nil && (kindOf(c.Type()) != KStruct && kindOf(c.Type()) != KArray && kindOf(c.Type()) != KInt && kindOf(c.Type()) != KBool && kindOf(c.Type()) != KString)
}

// stringEq: content equality of two strings.
func (x *Exec) stringEq(st *State, a, b *Val) Tm {
	m := st.m
	key := elemKey(types.Typ[types.Uint8]) + "|"
	bs := m.intSort(intInfo{8, false})
	inner := ArrOf(m.idx(), bs)
	h := st.heapGet(key, ArrOf(SInt, inner))
	i := freshName("i")
	body := fmt.Sprintf("(forall ((%s %s)) (=> (and %s %s) (= (select (select %s %s) %s) (select (select %s %s) %s))))",
		i, m.idx(), m.le(m.idxLit(0), Tm{i, m.idx()}).S, m.lt(Tm{i, m.idx()}, a.ln()).S,
		h.S, a.arr().S, m.add(a.off(), Tm{i, m.idx()}).S, h.S, b.arr().S, m.add(b.off(), Tm{i, m.idx()}).S)
	return and(eq(a.ln(), b.ln()), Tm{body, SBool})
}

func (x *Exec) convert(st *State, fr *Frame, in *ssa.Convert) *Val {
	m := st.m
	v := x.operand(st, fr, in.X)
	from, to := in.X.Type(), in.Type()
	fk, tk := kindOf(from), kindOf(to)
	switch {
	case fk == KInt && tk == KInt:
		fi, _ := basicIntInfo(from)
		ti, _ := basicIntInfo(to)
		return scalar(to, KInt, st.define(in.Name(), m.convert(v.S, fi, ti)))
	case fk == KString && tk == KSlice:
		// []byte(s): fresh array with the same content
		et := to.Underlying().(*types.Slice).Elem()
		if b, ok := et.Underlying().(*types.Basic); !ok || b.Kind() != types.Uint8 {
			engineErr("conversion string -> %s unsupported", to)
		}
		ref := st.newRef("conv")
		x.copyRange(st, et, ref, m.idxLit(0), v.arr(), v.off(), v.ln(), true)
		return x.mkSlice(to, ref, m.idxLit(0), v.ln(), v.ln())
	case fk == KSlice && tk == KString:
		et := from.Underlying().(*types.Slice).Elem()
		ref := st.newRef("conv")
		x.copyRange(st, et, ref, m.idxLit(0), v.arr(), v.off(), v.ln(), true)
		return x.mkString(to, ite(eq(v.ln(), m.idxLit(0)), Tm{"0", SInt}, ref), m.idxLit(0), v.ln())
	case fk == KPtr && tk == KPtr:
		nv := *v
		nv.T = to
		return &nv
	case fk == KFloat || tk == KFloat:
		return st.freshVal("fconv", to)
	}
	engineErr("conversion %s -> %s unsupported in %s", from, to, fr.fn)
	return nil
}

// copyRange sets dst[dstOff+i] = src[srcOff+i] for 0 <= i < n in the element heap of et.
// If fresh, dst is a newly allocated array (zero elsewhere is not needed by callers).
func (x *Exec) copyRange(st *State, et types.Type, dst, dstOff, src, srcOff, n Tm, fresh bool) {
	m := st.m
	for _, l := range m.leaves(et) {
		key := elemKey(et) + "|" + l.path
		inner := ArrOf(m.idx(), l.sort)
		h := st.heapGet(key, ArrOf(SInt, inner))
		old := sel(h, dst, inner)
		srcArr := sel(h, src, inner)
		na := st.declare("cp", inner)
		i := Tm{freshName("i"), m.idx()}
		inR := and(m.le(dstOff, i), m.lt(i, m.add(dstOff, n)))
		var other string
		if fresh {
			other = "true"
		} else {
			other = eq(sel(na, i, l.sort), sel(old, i, l.sort)).S
		}
		st.assume(Tm{fmt.Sprintf("(forall ((%s %s)) (! (ite %s (= (select %s %s) (select %s %s)) %s) :pattern ((select %s %s))))",
			i.S, m.idx(), inR.S, na.S, i.S, srcArr.S, m.add(srcOff, m.sub(i, dstOff)).S, other, na.S, i.S), SBool})
		st.heapSet(key, store(h, dst, na))
	}
}

func (x *Exec) makeInterface(st *State, v *Val, from types.Type, to types.Type) *Val {
	id := x.typeID(from)
	typ := Tm{fmt.Sprint(id), SInt}
	var val Tm
	switch kindOf(from) {
	case KPtr, KChan, KMap:
		if v.P != nil && (v.P.Kind != PObj || len(v.P.Path) != 0) {
			if v.P.Kind == PGlobal {
				val = v.S
			} else {
				val = v.P.addrTerm(st.m)
				x.declAddrUFs(st.m)
				st.assume(v.P.addrFacts(st.m))
			}
		} else {
			val = v.S
		}
	default:
		// boxed value
		ref := st.newRef("box")
		p := &Ptr{Kind: PBox, Base: ref, Root: from}
		st.storeTo(p, v)
		val = ref
	}
	r := &Val{T: to, K: KIface, Fs: []*Val{scalar(nil, KInt, typ), scalar(nil, KInt, val)}}
	if v.Cl != nil {
		r.Cl = v.Cl
	}
	if v.P != nil {
		r.P = v.P
	}
	return r
}


// trUF: the trigger predicate for index terms of a sort.
func (x *Exec) trUF(s Sort) string {
	n := "Tr"
	if s.isBV() {
		n = fmt.Sprintf("TrB%d", s.bvWidth())
	}
	x.declUF(n, fmt.Sprintf("(declare-fun %s (%s) Bool)", n, s))
	return n
}

func (x *Exec) trRefUF() string {
	x.declUF("TrR", "(declare-fun TrR (Int) Bool)")
	return "TrR"
}

func (x *Exec) declAddrUFs(m Mode) {
	x.declUF("fieldaddr", "(declare-fun fieldaddr (Int Int) Int)")
	x.declUF("elemaddr", fmt.Sprintf("(declare-fun elemaddr (Int %s) Int)", m.idx()))
	x.declUF("fa_base", "(declare-fun fa_base (Int) Int)")
	x.declUF("ea_arr", "(declare-fun ea_arr (Int) Int)")
	x.declUF("ea_idx", fmt.Sprintf("(declare-fun ea_idx (Int) %s)", m.idx()))
}

// typeTest returns (ok, value) of asserting iface value xv to type t.
func (x *Exec) typeTest(st *State, xv *Val, t types.Type) (Tm, *Val) {
	if xv.K != KIface {
		engineErr("type assertion on non-interface")
	}
	if types.IsInterface(t) {
		uf := x.implUF(t)
		ok := and(not(eq(xv.ityp(), Tm{"0", SInt})), tm(SBool, "(%s %s)", uf, xv.ityp().S))
		nv := *xv
		nv.T = t
		return ok, &nv
	}
	id := x.typeID(t)
	ok := eq(xv.ityp(), Tm{fmt.Sprint(id), SInt})
	var val *Val
	switch kindOf(t) {
	case KPtr, KChan, KMap:
		val = scalar(t, kindOf(t), xv.ival())
		if xv.P != nil {
			val.P = xv.P
		}
	default:
		val = st.loadFrom(st.heap, &Ptr{Kind: PBox, Base: xv.ival(), Root: t})
		if xv.Cl != nil {
			val.Cl = xv.Cl
		}
	}
	return ok, val
}

func (x *Exec) typeAssertOk(st *State, in *ssa.TypeAssert, xv *Val) *Val {
	ok, val := x.typeTest(st, xv, in.AssertedType)
	okd := st.define(in.Name()+".ok", ok)
	// value is zero when !ok
	z := st.m.zero(in.AssertedType)
	fv, fz := val.flatten(), z.flatten()
	out := make([]Tm, len(fv))
	for i := range fv {
		out[i] = st.define(in.Name(), ite(okd, fv[i], fz[i]))
	}
	res := st.m.build(in.AssertedType, out)
	res.Cl = val.Cl
	res.P = val.P
	st.assumeWellFormed(res)
	return &Val{T: in.Type(), K: KTuple, Fs: []*Val{res, scalar(types.Typ[types.Bool], KBool, okd)}}
}

// ---------------------------------------------------------------------------
// "field T.f closure Fn(fv = expr, ...)" declarations: a func-typed field always
// holds a closure of Fn whose captured variables have the given values.

func namedStructKey(t types.Type) string {
	k := typeKey(t)
	if i := strings.Index(k, "["); i >= 0 {
		k = k[:i]
	}
	return k
}

func (x *Exec) fieldDecl(root types.Type, path []int, kind string) (*FieldDecl, bool) {
	if len(path) != 1 {
		return nil, false
	}
	stt, ok := root.Underlying().(*types.Struct)
	if !ok {
		return nil, false
	}
	name := namedStructKey(root)
	fname := stt.Field(path[0]).Name()
	for _, fd := range x.cs.Fields {
		if fd.Kind == kind && fd.Field == fname && (fd.Pkg+"."+fd.Type == name) {
			return fd, true
		}
	}
	return nil, false
}

type closureDecl struct {
	fnName string
	binds  map[string]string
}

func parseClosureDecl(arg string) closureDecl {
	cd := closureDecl{binds: map[string]string{}}
	i := strings.Index(arg, "(")
	if i < 0 {
		cd.fnName = strings.TrimSpace(arg)
		return cd
	}
	cd.fnName = strings.TrimSpace(arg[:i])
	body := strings.TrimSuffix(strings.TrimSpace(arg[i+1:]), ")")
	for _, part := range strings.Split(body, ",") {
		kv := strings.SplitN(part, "=", 2)
		if len(kv) == 2 {
			cd.binds[strings.TrimSpace(kv[0])] = strings.TrimSpace(kv[1])
		}
	}
	return cd
}

func (x *Exec) closureFn(fd *FieldDecl, cd closureDecl) *ssa.Function {
	key := fd.Pkg + "." + cd.fnName
	// pick the instance matching the function under verification when generic
	for k, fns := range x.allFns() {
		if k != key {
			continue
		}
		if len(fns) == 1 {
			return fns[0]
		}
		for _, fn := range fns {
			if x.curFn != nil && fn.Parent() != nil && sameTypeArgs(fn.Parent(), x.curFn) {
				return fn
			}
		}
		return fns[0]
	}
	engineErr("field %s.%s closure: function %s not found", fd.Type, fd.Field, key)
	return nil
}

func sameTypeArgs(a, b *ssa.Function) bool {
	ta, tb := a.TypeArgs(), b.TypeArgs()
	if len(ta) != len(tb) || len(ta) == 0 {
		return false
	}
	for i := range ta {
		if !types.Identical(ta[i], tb[i]) {
			return false
		}
	}
	return true
}

func (x *Exec) attachFieldClosure(st *State, p *Ptr, lv *Val) {
	if p.Kind != PObj {
		return
	}
	fd, ok := x.fieldDecl(p.Root, p.Path, "closure")
	if !ok {
		return
	}
	cd := parseClosureDecl(fd.Arg)
	fn := x.closureFn(fd, cd)
	self := &Val{T: types.NewPointer(p.Root), K: KPtr, S: p.Base}
	env := &CEnv{x: x, st: st, vars: map[string]*Val{"self": self}, pkg: fd.Pkg}
	var binds []*Val
	for _, fv := range fn.FreeVars {
		src, ok := cd.binds[fv.Name()]
		if !ok {
			engineErr("field %s.%s closure: no binding for captured variable %s", fd.Type, fd.Field, fv.Name())
		}
		cl, err := parseClause(src, "", 0, false)
		if err != nil {
			engineErr("%v", err)
		}
		v := env.eval(cl.Expr)
		if pt, isPtr := fv.Type().Underlying().(*types.Pointer); isPtr {
			cell := st.allocObject(fv.Type(), pt.Elem())
			st.storeTo(ptrOf(cell), v)
			binds = append(binds, cell)
		} else {
			binds = append(binds, v)
		}
	}
	lv.Cl = &Closure{Fn: fn, Binds: binds}
}

type closureCheck struct {
	fd   *FieldDecl
	self *Val
	cl   *Val
}

func (x *Exec) noteClosureStore(st *State, fr *Frame, p *Ptr, v *Val) {
	if p.Kind != PObj {
		return
	}
	fd, ok := x.fieldDecl(p.Root, p.Path, "closure")
	if !ok {
		return
	}
	self := &Val{T: types.NewPointer(p.Root), K: KPtr, S: p.Base}
	st.closureChecks = append(st.closureChecks, closureCheck{fd, self, v})
}

// closureObligations are emitted at normal exit of the function under verification.
func (x *Exec) closureObligations(st *State) {
	for _, cc := range st.closureChecks {
		cd := parseClosureDecl(cc.fd.Arg)
		name := "structinv:" + cc.fd.Type + "." + cc.fd.Field
		if cc.cl.Cl == nil || fnKey(cc.cl.Cl.Fn) != cc.fd.Pkg+"."+cd.fnName {
			x.emit(st, name, "structinv", tFalse, "the value stored in "+cc.fd.Type+"."+cc.fd.Field+" is a closure of "+cd.fnName)
			continue
		}
		env := &CEnv{x: x, st: st, vars: map[string]*Val{"self": cc.self}, pkg: cc.fd.Pkg}
		var goals []Tm
		for i, fv := range cc.cl.Cl.Fn.FreeVars {
			src := cd.binds[fv.Name()]
			cl, err := parseClause(src, "", 0, false)
			if err != nil {
				engineErr("%v", err)
			}
			want := env.eval(cl.Expr)
			have := cc.cl.Cl.Binds[i]
			if _, isPtr := fv.Type().Underlying().(*types.Pointer); isPtr {
				have = st.loadFrom(st.heap, ptrOf(have))
			}
			goals = append(goals, valEq(have, want))
		}
		x.emit(st, name, "structinv", and(goals...), "captured variables of the closure stored in "+cc.fd.Type+"."+cc.fd.Field+" have the declared values")
	}
}

// allocEscapes reports whether the address of a local may reach code we do not
// execute ourselves (then a "modifies all" callee may change it).
var escapeCache = map[*ssa.Alloc]bool{}

func allocEscapes(a *ssa.Alloc) bool {
	if r, ok := escapeCache[a]; ok {
		return r
	}
	escapeCache[a] = true // cycles: conservative
	r := addrEscapes(a, 0)
	escapeCache[a] = r
	return r
}

func addrEscapes(v ssa.Value, depth int) bool {
	if depth > 4 {
		return true
	}
	refs := v.Referrers()
	if refs == nil {
		return true
	}
	for _, in := range *refs {
		switch in := in.(type) {
		case *ssa.DebugRef:
		case *ssa.Store:
			if in.Val == v {
				return true // the address itself is stored somewhere
			}
		case *ssa.UnOp:
			// load
		case *ssa.FieldAddr:
			if addrEscapes(in, depth+1) {
				return true
			}
		case *ssa.MakeClosure:
			// captured read-only by our own closure code: nobody can write the cell through it
			if fn, ok := in.Fn.(*ssa.Function); ok {
				ro := true
				for bi, b := range in.Bindings {
					if b == v && bi < len(fn.FreeVars) && !freeVarReadOnly(fn.FreeVars[bi], 0) {
						ro = false
					}
				}
				if ro {
					continue
				}
			}
			// otherwise fine as long as the closure is only deferred or called here
			crefs := in.Referrers()
			if crefs == nil {
				return true
			}
			for _, ci := range *crefs {
				switch ci := ci.(type) {
				case *ssa.Defer:
					if ci.Call.Value != in {
						return true
					}
				case *ssa.Call:
					if ci.Call.Value != in && !passedToInlinedCaller(ci, in) {
						return true
					}
				case *ssa.DebugRef:
				default:
					return true
				}
			}
		default:
			return true
		}
	}
	return false
}

// inlinedFn is set by the loader: functions with an "inline" contract (executed by the engine
// itself at every call site).
var inlinedFn = func(fn *ssa.Function) bool { return false }

// passedToInlinedCaller: the closure is an argument of a call to an inlined function whose
// corresponding parameter is only ever called (a lock wrapper): the engine runs that code itself,
// so the closure's captured cells are not exposed to unknown code.
func passedToInlinedCaller(call *ssa.Call, cl ssa.Value) bool {
	sc := call.Call.StaticCallee()
	if sc == nil || !inlinedFn(sc) || len(sc.Params) != len(call.Call.Args) {
		return false
	}
	for i, a := range call.Call.Args {
		if a != cl {
			continue
		}
		refs := sc.Params[i].Referrers()
		if refs == nil {
			return false
		}
		for _, r := range *refs {
			switch r := r.(type) {
			case *ssa.DebugRef:
			case *ssa.Call:
				if r.Call.Value != sc.Params[i] {
					return false
				}
			default:
				return false
			}
		}
	}
	return true
}

// freeVarReadOnly: the captured variable is only loaded from (possibly by nested closures).
func freeVarReadOnly(fv *ssa.FreeVar, depth int) bool {
	if depth > 3 {
		return false
	}
	refs := fv.Referrers()
	if refs == nil {
		return false
	}
	for _, in := range *refs {
		switch in := in.(type) {
		case *ssa.DebugRef:
		case *ssa.UnOp:
		case *ssa.MakeClosure:
			fn, ok := in.Fn.(*ssa.Function)
			if !ok {
				return false
			}
			for bi, b := range in.Bindings {
				if b == ssa.Value(fv) && bi < len(fn.FreeVars) && !freeVarReadOnly(fn.FreeVars[bi], depth+1) {
					return false
				}
			}
		default:
			return false
		}
	}
	return true
}

// isPkgInit: the synthetic package initialiser go/ssa builds from the package-level variable
// initialisers and init functions.
func isPkgInit(fn *ssa.Function) bool {
	return fn != nil && fn.Synthetic == "package initializer"
}
