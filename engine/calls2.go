package main

// Calls, part 2: inlining, contract application, interface and dynamic calls,
// built-in functions, loop cutting.

import (
	"go/parser"
	"sort"
	"fmt"
	"go/ast"
	"go/types"
	"strings"

	"golang.org/x/tools/go/ssa"
)

func (x *Exec) inlineCall(st *State, fr *Frame, site ssa.Instruction, fn *ssa.Function, args []*Val, binds []*Val, deferOf *Frame, kn func(*State, []*Val), kp func(*State, *Val)) {
	prefix := fr.prefix + shortFn(fn) + "."
	x.runFunction(st, fr, fn, args, binds, deferOf, prefix, func(s *State, res []*Val, pan *Val) {
		if pan != nil {
			kp(s, pan)
		} else {
			kn(s, res)
		}
	})
}

func shortFn(fn *ssa.Function) string {
	n := fn.Name()
	if i := strings.Index(n, "["); i >= 0 {
		if j := strings.LastIndex(n, "]"); j > i {
			n = n[:i] + n[j+1:]
		}
	}
	return n
}

// callEnv binds the names a callee contract may mention.
func (x *Exec) callEnv(st *State, c *Contract, sig *types.Signature, fn *ssa.Function, args []*Val, binds []*Val) *CEnv {
	env := &CEnv{x: x, st: st, vars: map[string]*Val{}, pkg: c.Pkg, contract: c}
	if fn != nil {
		for i, p := range fn.Params {
			if i < len(args) {
				env.vars[p.Name()] = args[i]
			}
		}
		for i, fv := range fn.FreeVars {
			if i < len(binds) {
				env.freevars = append(env.freevars, fvBind{fv.Name(), binds[i]})
			}
		}
		env.fn = fn
		// the contract's own parameter names (positional): a renamed parameter keeps its clause name
		if len(c.ParamNames) == len(fn.Params) {
			for i, n := range c.ParamNames {
				if n != "_" && i < len(args) {
					if _, have := env.vars[n]; !have {
						env.vars[n] = args[i]
					}
				}
			}
		}
	}
	off := 0
	if sig.Recv() != nil && fn != nil {
		off = 1
		if len(args) > 0 {
			env.vars["recv"] = args[0]
		}
	}
	for i := off; i < len(args); i++ {
		env.vars[fmt.Sprintf("arg%d", i-off)] = args[i]
	}
	return env
}

// applyContract uses a callee's contract at a call site.
func (x *Exec) applyContract(st *State, fr *Frame, site ssa.Instruction, c *Contract, env *CEnv, sig *types.Signature, args []*Val, kn0 func(*State, []*Val), kp0 func(*State, *Val)) {
	// type parameters named in the callee's contract resolve to the callee instance's type arguments
	saved := x.tscope
	x.tscope = env.fn
	defer func() { x.tscope = saved }()
	kn := func(s *State, r []*Val) { t := x.tscope; x.tscope = saved; kn0(s, r); x.tscope = t }
	kp := func(s *State, p *Val) { t := x.tscope; x.tscope = saved; kp0(s, p); x.tscope = t }
	ord := 0
	if site != nil {
		ord = x.siteOrdinal(fr.fn, site, "call")
	}
	env.oldHeap = st.heapCopy()
	env.curHeap = nil
	// contract-level 'forall' variables of the callee: identified with same-named
	// variables of the function under verification (instance), otherwise the
	// clauses mentioning them are used in quantified form.
	var unbound []ParamSpec
	for _, fa := range c.Foralls {
		if v, ok := x.forallVs[fa.Name]; ok && x.cur != nil && x.cur != c {
			env.vars[fa.Name] = v
		} else {
			unbound = append(unbound, fa)
		}
	}
	mentions := func(cl Clause) bool {
		found := false
		ast.Inspect(cl.Expr, func(n ast.Node) bool {
			if id, ok := n.(*ast.Ident); ok {
				for _, fa := range unbound {
					if fa.Name == id.Name {
						found = true
					}
				}
			}
			return true
		})
		return found
	}
	var qreq []Clause
	// preconditions
	for i, r := range c.Requires {
		if len(unbound) > 0 && mentions(r) {
			qreq = append(qreq, r)
			continue
		}
		lbl := r.Label
		if lbl == "" {
			lbl = fmt.Sprint(i)
		}
		g, note := safeEval(env, r)
		x.emit(st, fmt.Sprintf("pre:%s%s.%s@%d", fr.prefix, c.Short, lbl, ord), "pre", g,
			fmt.Sprintf("precondition %q of %s at call in %s%s", r.Src, c.Key, fr.fn.Name(), note))
		st.assume(g)
	}
	var panicCond Tm = tFalse
	exact := false
	if c.PanicsIff != nil {
		panicCond = env.withPol(0).evalBool(*c.PanicsIff)
		exact = true
	} else if c.MayPanic != nil {
		panicCond = env.withPol(0).evalBool(*c.MayPanic)
	}
	traceBase := len(st.trace)
	preHeap := env.oldHeap
	doEffects := func(s *State, panicked bool) (*CEnv, []*Val) {
		e2 := *env
		e2.st = s
		e2.vars = map[string]*Val{}
		for k, v := range env.vars {
			e2.vars[k] = v
		}
		evIdx := -1
		if c.Event {
			ev := Event{Callee: c.Key, Short: c.Short, Args: args, Heap: preHeap}
			if c.Iface && len(args) > 0 {
				ev.Recv = args[0]
				ev.Args = args[1:]
			}
			s.trace = append(s.trace, ev)
			evIdx = len(s.trace) - 1
		}
		x.havocModifies(s, c, c.Modifies, env)
		// allocation may have happened in the callee
		na := s.declare("alloc", SInt)
		s.assume(tm(SBool, "(>= %s %s)", na.S, s.alloc.S))
		e2.allocBefore = s.alloc
		s.alloc = na
		var res []*Val
		if !panicked {
			rs := sig.Results()
			for i := 0; i < rs.Len(); i++ {
				rv := s.freshVal("r."+c.Short, rs.At(i).Type())
				res = append(res, rv)
				e2.vars[fmt.Sprintf("result%d", i)] = rv
				if rs.At(i).Name() != "" && rs.At(i).Name() != "_" {
					if _, clash := e2.vars[rs.At(i).Name()]; !clash {
						e2.vars[rs.At(i).Name()] = rv
					}
				}
				if i < len(c.ResultNames) && c.ResultNames[i] != "_" {
					if _, clash := e2.vars[c.ResultNames[i]]; !clash {
						e2.vars[c.ResultNames[i]] = rv
					}
				}
			}
			if len(res) == 1 {
				e2.vars["result"] = res[0]
			}
			if evIdx >= 0 {
				s.trace[evIdx].Res = res
			}
		}
		e2.traceBase = traceBase
		return &e2, res
	}
	coverName := fmt.Sprintf("cover:call:%s%s@%d", fr.prefix, c.Short, ord)
	guarded := len(c.Ensures)+len(c.EnsuresA) > 0 || len(c.Preserves) > 0
	normal := func(s *State) {
		if guarded {
			x.emitCoverQ(s, coverName, "the call of "+c.Key+" in "+fr.fn.Name()+" is reachable", true)
		}
		e2, res := doEffects(s, false)
		for _, en := range c.Ensures {
			if mentionsTrace(en.Expr) {
				continue // speaks about the callee's own atomic points, which the caller's trace does not contain
			}
			// a callee clause that cannot be evaluated at this call site is simply not used
			func() {
				defer func() {
					if r := recover(); r != nil {
						if _, ok := r.(*EngineError); !ok {
							panic(r)
						}
					}
				}()
				s.assume(x.quantifyForalls(e2, c, unbound, qreq, en))
			}()
		}
		for _, en := range c.EnsuresA {
			s.assume(e2.hyp(en))
		}
		// vacuity guard: what the callee's contract promises must be consistent with what the caller
		// knows at this site (a contradictory 'ensures'/'preserves' would silently discharge
		// everything after the call). One witness path per call site suffices.
		if guarded {
			x.emitCoverQ(s, coverName, "the state after the call of "+c.Key+" in "+fr.fn.Name()+" is satisfiable", false)
		}
		kn(s, res)
	}
	panicPath := func(s *State) {
		e2, _ := doEffects(s, true)
		pv := s.freshVal("panic."+c.Short, types.NewInterfaceType(nil, nil))
		s.assume(not(isNilTm(pv)))
		e2.panicked = true
		e2.panicVal = pv
		for _, en := range c.EnsuresP {
			if mentionsTrace(en.Expr) {
				continue // as for normal returns: the callee's own atomic points are not in the caller's trace
			}
			s.assume(x.quantifyForalls(e2, c, unbound, qreq, en))
		}
		kp(s, pv)
	}
	if panicCond.S == "false" {
		normal(st)
		return
	}
	x.pathLimit()
	st2 := st.clone()
	st2.assume(panicCond)
	if exact {
		st.assume(not(panicCond))
	}
	normal(st)
	panicPath(st2)
}

// quantifyForalls evaluates a callee clause at a call site. Contract-level
// 'forall' variables of the callee that could not be identified with variables of
// the caller are universally quantified; requires clauses mentioning them become
// antecedents (evaluated in the pre-state).
func (x *Exec) quantifyForalls(env *CEnv, c *Contract, unbound []ParamSpec, qreq []Clause, cl Clause) Tm {
	if len(unbound) == 0 {
		return env.hyp(cl)
	}
	used := false
	ast.Inspect(cl.Expr, func(n ast.Node) bool {
		if id, ok := n.(*ast.Ident); ok {
			for _, fa := range unbound {
				if fa.Name == id.Name {
					used = true
				}
			}
		}
		return true
	})
	if !used {
		return env.hyp(cl)
	}
	m := env.st.m
	sub := env.sub()
	for k, v := range env.vars {
		sub.vars[k] = v
	}
	var bvs []string
	for _, fa := range unbound {
		t := x.resolveType(c.Pkg, fa.Type)
		ls := m.leaves(t)
		ts := make([]Tm, len(ls))
		for i, l := range ls {
			bn := freshName(fa.Name)
			ts[i] = Tm{bn, l.sort}
			bvs = append(bvs, fmt.Sprintf("(%s %s)", bn, l.sort))
		}
		sub.bindQ(fa.Name, m.build(t, ts))
	}
	var sides []Tm
	sub.sides = &sides
	var ante []Tm
	pre := *sub
	pre.inOld = true
	for _, r := range qreq {
		ante = append(ante, pre.withPol(-1).evalBool(r))
	}
	body := sub.hyp(cl)
	return mkForallP(strings.Join(bvs, " "), nil, implies(and(ante...), and(append(sides, body)...)))
}

// havocModifies replaces the heap arrays named by a modifies list.
func (x *Exec) havocModifies(st *State, c *Contract, items []string, env *CEnv) {
	for _, it := range items {
		if it2 := strings.TrimSpace(it); strings.HasPrefix(it2, "newelems(") && strings.HasSuffix(it2, ")") {
			// only arrays allocated by the callee differ afterwards
			t := x.resolveType(c.Pkg, it2[9:len(it2)-1])
			for _, l := range st.m.leaves(t) {
				key := elemKey(t) + "|" + l.path
				srt := ArrOf(SInt, ArrOf(st.m.idx(), l.sort))
				old := st.heapGet(key, srt)
				na := st.declare("Hn."+key, srt)
				a := freshName("a")
				st.assume(tm(SBool, "(forall ((%s Int)) (! (=> (<= %s %s) (= (select %s %s) (select %s %s))) :pattern ((select %s %s))))",
					a, a, st.alloc.S, na.S, a, old.S, a, na.S, a))
				st.heap[key] = na
			}
			continue
		}
		if strings.HasPrefix(strings.TrimSpace(it), "slice ") {
			x.havocSlice(st, c, strings.TrimSpace(strings.TrimPrefix(strings.TrimSpace(it), "slice ")), env)
			continue
		}
		if strings.TrimSpace(it) == "all" {
			keep := map[string]Tm{}
			for _, pr := range c.Preserves {
				for _, hk := range x.modifiesKeys(st, c.Pkg, pr) {
					keep[hk.key] = st.heapGet(hk.key, hk.sort)
				}
			}
			st.havocAll()
			for k2, v := range keep {
				st.heap[k2] = v
			}
			continue
		}
		for _, key := range x.modifiesKeys(st, c.Pkg, it) {
			if _, ok := st.sorts[key.key]; !ok {
				st.sorts[key.key] = key.sort
			}
			st.heap[key.key] = st.declare("Hv."+key.key, key.sort)
		}
	}
}

type heapKey struct {
	key  string
	sort Sort
}

// modifiesKeys expands one modifies item to heap-array keys.
//   T.f        field f of struct type T (all leaves below it)
//   T.*        every field of T
//   elems(T)   elements of slices/arrays of T
//   cell(T)    objects of non-struct type T (e.g. *[]byte cells)
//   ghost g    ghost map g
//   all        every heap array known so far
func (x *Exec) modifiesKeys(st *State, pkg, item string) []heapKey {
	m := st.m
	item = strings.TrimSpace(item)
	var out []heapKey
	switch {
	case item == "all":
		out = append(out, heapKey{"*all*", SInt})
		for _, k := range st.heapKeys() {
			if strings.HasPrefix(k, "B|") {
				continue // boxes are immutable
			}
			if strings.HasPrefix(k, "ghost|") {
				if gd := x.cs.Ghosts[strings.TrimPrefix(k, "ghost|")]; gd != nil && ghostIsConst(gd) {
					continue
				}
			}
			out = append(out, heapKey{k, st.sorts[k]})
		}
		return out
	case strings.HasPrefix(item, "newelems(") && strings.HasSuffix(item, ")"):
		t := x.resolveType(pkg, item[9:len(item)-1])
		for _, l := range m.leaves(t) {
			out = append(out, heapKey{elemKey(t) + "|" + l.path, ArrOf(SInt, ArrOf(m.idx(), l.sort))})
		}
		return out
	case strings.HasPrefix(item, "slice "):
		// over-approximation when no environment is at hand (loop frames): the byte heap
		t := types.Typ[types.Uint8]
		for _, l := range m.leaves(t) {
			out = append(out, heapKey{elemKey(t) + "|" + l.path, ArrOf(SInt, ArrOf(m.idx(), l.sort))})
		}
		return out
	case strings.HasPrefix(item, "ghost "):
		g := strings.TrimSpace(strings.TrimPrefix(item, "ghost "))
		gd := x.cs.Ghosts[g]
		if gd == nil {
			engineErr("modifies: unknown ghost %q", g)
		}
		return []heapKey{{"ghost|" + g, x.ghostSort(st.m, gd)}}
	case strings.HasPrefix(item, "elems(") && strings.HasSuffix(item, ")"):
		t := x.resolveType(pkg, item[6:len(item)-1])
		for _, l := range m.leaves(t) {
			out = append(out, heapKey{elemKey(t) + "|" + l.path, ArrOf(SInt, ArrOf(m.idx(), l.sort))})
		}
		return out
	case strings.HasPrefix(item, "cell(") && strings.HasSuffix(item, ")"):
		t := x.resolveType(pkg, item[5:len(item)-1])
		for _, l := range m.leaves(t) {
			out = append(out, heapKey{objKey(t) + "|" + l.path, ArrOf(SInt, l.sort)})
		}
		return out
	}
	i := strings.LastIndex(item, ".")
	if i < 0 {
		engineErr("bad modifies item %q", item)
	}
	t := x.resolveType(pkg, item[:i])
	stt, ok := t.Underlying().(*types.Struct)
	if !ok {
		engineErr("modifies %q: %s is not a struct", item, t)
	}
	fname := item[i+1:]
	found := false
	for j := 0; j < stt.NumFields(); j++ {
		if fname == "*" || stt.Field(j).Name() == fname {
			found = true
			for _, l := range m.leaves(stt.Field(j).Type()) {
				out = append(out, heapKey{objKey(t) + "|." + stt.Field(j).Name() + l.path, ArrOf(SInt, l.sort)})
			}
		}
	}
	if !found {
		engineErr("modifies %q: no such field", item)
	}
	return out
}

// ---------------------------------------------------------------------------
// interface method invocation and dynamic calls

func ifaceMethodKey(f *types.Func) string {
	// (pkg.Iface).Method  ->  iface:pkg.Iface.Method
	full := f.FullName()
	full = strings.TrimPrefix(full, "(")
	full = strings.Replace(full, ").", ".", 1)
	return "iface:" + full
}

func (x *Exec) invoke(st *State, fr *Frame, site ssa.Instruction, cc *ssa.CallCommon, recv *Val, args []*Val, kn func(*State, []*Val), kp func(*State, *Val)) {
	x.fault(st, fr, site, "nil", not(isNilTm(recv)))
	// statically known dynamic type on this path? then dispatch to the concrete method
	if fn := x.concreteMethod(st, recv, cc.Method); fn != nil {
		_, val := x.typeTest(st, recv, x.typeByID[x.constTypeID(recv)])
		x.callFunction(st, fr, site, fn, append([]*Val{val}, args...), nil, nil, kn, kp)
		return
	}
	key := ifaceMethodKey(cc.Method)
	if im, ok := ifaceModels[key]; ok {
		if im(x, st, fr, site, recv, args, kn, kp) {
			return
		}
	}
	c := x.cs.Funcs[key]
	if c == nil {
		// an interface of the repository itself without a contract (typically one introduced by a
		// change): the call is an event that may do anything - obligations that depend on what
		// happens around it fail by name instead of the whole function being undecided
		dk := "default-iface:" + strings.TrimPrefix(key, "iface:")
		c = x.cs.Funcs[dk]
		if c == nil {
			short := strings.TrimPrefix(key, "iface:")
			if i := strings.LastIndex(short, "/"); i >= 0 {
				short = short[i+1:]
			}
			if i := strings.Index(short, "."); i >= 0 {
				short = short[i+1:]
			}
			t := tTrue
			_ = t
			c = &Contract{Key: dk, Short: short, Assumed: true, Iface: true, Event: true, Modifies: []string{"all"},
				Loops: map[int]*LoopSpec{}, PureParams: map[string]bool{}}
			mp := Clause{Src: "true", Label: ""}
			if e, err := parser.ParseExpr("true"); err == nil {
				mp.Expr = e
				c.MayPanic = &mp
			}
			x.cs.Funcs[dk] = c
		}
		key = dk
	}
	if c == nil {
		engineErr("no contract for interface method %s (called from %s)", key, fr.fn)
	}
	x.used[key] = true
	sig := cc.Method.Type().(*types.Signature)
	all := append([]*Val{recv}, args...)
	env := &CEnv{x: x, st: st, vars: map[string]*Val{"recv": recv}, pkg: c.Pkg, contract: c}
	for i, a := range args {
		env.vars[fmt.Sprintf("arg%d", i)] = a
		if n := sig.Params().At(i).Name(); n != "" && n != "_" {
			env.vars[n] = a
		}
	}
	x.applyContract(st, fr, site, c, env, sig, all, kn, kp)
}

func (x *Exec) constTypeID(v *Val) int {
	var id int
	if _, err := fmt.Sscanf(v.ityp().S, "%d", &id); err == nil && fmt.Sprint(id) == v.ityp().S {
		return id
	}
	return 0
}

// concreteMethod resolves an interface method call when the dynamic type is a
// constant on this path and the method belongs to a function we can see.
func (x *Exec) concreteMethod(st *State, recv *Val, m *types.Func) *ssa.Function {
	id := x.constTypeID(recv)
	if id == 0 {
		return nil
	}
	t := x.typeByID[id]
	if t == nil {
		return nil
	}
	sel := x.prog.MethodSets.MethodSet(t).Lookup(m.Pkg(), m.Name())
	if sel == nil {
		return nil
	}
	fn := x.prog.MethodValue(sel)
	if fn == nil {
		return nil
	}
	// only dispatch when we have something to run or a contract
	if x.cs.Funcs[fnKey(fn)] != nil || lookupBuiltinModel(fnKey(fn)) != nil {
		return fn
	}
	if fn.Synthetic != "" && fn.Blocks != nil && !strings.HasPrefix(fn.Synthetic, "instance of") {
		return fn // promoted-method wrapper: inlined, ends in the real method
	}
	return nil
}

func (x *Exec) dynamicCall(st *State, fr *Frame, site ssa.Instruction, cc *ssa.CallCommon, fnv *Val, args []*Val, kn func(*State, []*Val), kp func(*State, *Val)) {
	// a func-typed parameter declared pure in the contract of the function being executed
	name := cc.Value.Name()
	if p, ok := cc.Value.(*ssa.Parameter); ok {
		name = p.Name()
	}
	c := fr.contract
	sig := cc.Value.Type().Underlying().(*types.Signature)
	x.fault(st, fr, site, "nil", not(isNilTm(fnv)))
	if c != nil && c.PureParams[name] {
		kn(st, x.pureParamApp(st, fr.fn, name, fnv, args, sig))
		return
	}
	// contract for calls through a func value: "dyn:<function key>:<name>" or "functype:<type>"
	key := "dyn:" + fnKey(fr.fn) + ":" + name
	dc := x.cs.Funcs[key]
	if dc == nil {
		key = "functype:" + typeKey(cc.Value.Type())
		dc = x.cs.Funcs[key]
	}
	if dc == nil {
		// a function type without a contract (typically one introduced by a change, e.g. a new
		// functional option): the call is an event that may do anything - what the surrounding
		// contract needs then fails as a named obligation instead of the function being undecided
		dk := "default-functype:" + typeKey(cc.Value.Type())
		dc = x.cs.Funcs[dk]
		if dc == nil {
			dc = &Contract{Key: dk, Short: typeKey(cc.Value.Type()), Assumed: true, Event: true, Modifies: []string{"all"},
				Loops: map[int]*LoopSpec{}, PureParams: map[string]bool{}}
			mp := Clause{Src: "true", Label: ""}
			if e, err := parser.ParseExpr("true"); err == nil {
				mp.Expr = e
				dc.MayPanic = &mp
			}
			x.cs.Funcs[dk] = dc
		}
		key = dk
	}
	x.used[key] = true
	env := &CEnv{x: x, st: st, vars: map[string]*Val{"recv": fnv}, pkg: dc.Pkg, contract: dc}
	for i, a := range args {
		env.vars[fmt.Sprintf("arg%d", i)] = a
	}
	x.applyContract(st, fr, site, dc, env, sig, append([]*Val{fnv}, args...), kn, kp)
}

// ---------------------------------------------------------------------------
// built-in functions

func (x *Exec) builtin(st *State, fr *Frame, site ssa.Instruction, b *ssa.Builtin, cc *ssa.CallCommon, args []*Val, deferOf *Frame, kn func(*State, []*Val), kp func(*State, *Val)) {
	m := st.m
	switch b.Name() {
	case "len":
		a := args[0]
		switch a.K {
		case KSlice, KString:
			kn(st, []*Val{scalar(types.Typ[types.Int], KInt, a.ln())})
		case KChan:
			kn(st, []*Val{x.chanLen(st, fr, site, a)})
		case KMap:
			kn(st, []*Val{st.freshVal("maplen", types.Typ[types.Int])})
		default:
			engineErr("len of %v", a.K)
		}
	case "cap":
		a := args[0]
		switch a.K {
		case KSlice:
			kn(st, []*Val{scalar(types.Typ[types.Int], KInt, a.cp())})
		case KChan:
			kn(st, []*Val{x.chanCap(st, a)})
		default:
			engineErr("cap of %v", a.K)
		}
	case "append":
		x.appendOp(st, fr, site, cc, args, kn)
	case "copy":
		dst, src := args[0], args[1]
		n := st.define("cpn", ite(m.le(dst.ln(), src.ln()), dst.ln(), src.ln()))
		var et types.Type = types.Typ[types.Uint8]
		if s, ok := cc.Args[0].Type().Underlying().(*types.Slice); ok {
			et = s.Elem()
		}
		x.copyRange(st, et, dst.arr(), dst.off(), src.arr(), src.off(), n, false)
		kn(st, []*Val{scalar(types.Typ[types.Int], KInt, n)})
	case "recover":
		// effective only when called directly by a deferred function while its frame's owner panics
		if fr.deferOf != nil && st.F(fr.deferOf).panicking != nil {
			fd := st.F(fr.deferOf)
			pv := fd.panicking
			fd.panicking = nil
			fd.recovered = true
			kn(st, []*Val{pv})
			return
		}
		kn(st, []*Val{m.zero(types.NewInterfaceType(nil, nil))})
	case "close":
		x.chanClose(st, fr, site, args[0], kn, kp)
	case "delete":
		x.mapDelete(st, fr, cc, args)
		kn(st, nil)
	case "print", "println":
		kn(st, nil)
	case "min", "max":
		a, bb := args[0], args[1]
		ii, _ := basicIntInfo(cc.Args[0].Type())
		c := m.cmp(tokenLE, a.S, bb.S, ii)
		if b.Name() == "min" {
			kn(st, []*Val{scalar(cc.Args[0].Type(), KInt, ite(c, a.S, bb.S))})
		} else {
			kn(st, []*Val{scalar(cc.Args[0].Type(), KInt, ite(c, bb.S, a.S))})
		}
	default:
		engineErr("builtin %s not supported (%s)", b.Name(), fr.fn)
	}
}

func (x *Exec) appendOp(st *State, fr *Frame, site ssa.Instruction, cc *ssa.CallCommon, args []*Val, kn func(*State, []*Val)) {
	m := st.m
	s, t := args[0], args[1]
	st0 := cc.Args[0].Type()
	sl, ok := st0.Underlying().(*types.Slice)
	if !ok {
		engineErr("append on %s", st0)
	}
	et := sl.Elem()
	var tArr, tOff, tLen Tm
	switch t.K {
	case KSlice, KString:
		tArr, tOff, tLen = t.arr(), t.off(), t.ln()
	default:
		engineErr("append of %v", t.K)
	}
	newLen := st.define("aplen", m.add(s.ln(), tLen))
	fits := m.le(newLen, s.cp())
	x.branch(st, fits,
		func(s1 *State) {
			x.copyRange(s1, et, s.arr(), m.add(s.off(), s.ln()), tArr, tOff, tLen, false)
			kn(s1, []*Val{x.mkSlice(st0, s.arr(), s.off(), newLen, s.cp())})
		},
		func(s2 *State) {
			ref := s2.newRef("grow")
			nc := s2.declare("apcap", m.idx())
			s2.assume(and(m.le(newLen, nc), m.le(nc, m.lit(maxLen, goInt))))
			x.fault(s2, fr, site, "make", m.le(newLen, m.lit(maxLen, goInt)))
			// fresh array: first the old elements, then the appended ones
			x.copyRange(s2, et, ref, m.idxLit(0), s.arr(), s.off(), s.ln(), true)
			x.copyRange(s2, et, ref, s.ln(), tArr, tOff, tLen, false)
			kn(s2, []*Val{x.mkSlice(st0, ref, m.idxLit(0), newLen, nc)})
		})
}

// ---------------------------------------------------------------------------
// loops

func (x *Exec) loopSpec(fr *Frame, ord int) *LoopSpec {
	if fr.contract == nil {
		return x.orphanLoopSpec(fr, ord)
	}
	return fr.contract.Loops[ord]
}

// orphanLoopSpec: a loop met in a helper that has no contract of its own (auto-inlined: typically
// a loop that a refactoring moved out of the function under contract). If the contract of the
// function being verified has loop clauses for ordinals that function no longer has, they are
// handed out, in ascending order, to such loops in the order they are first met. The clauses are
// then checked against the helper's loop like any others (same-named locals are required).
func (x *Exec) orphanLoopSpec(fr *Frame, ord int) *LoopSpec {
	if x.cur == nil || x.curFn == nil || fr.fn == x.curFn || x.cs.Funcs[fnKey(fr.fn)] != nil || fr.fn.Parent() != nil {
		return nil
	}
	key := fmt.Sprintf("%s#%d", fnKey(fr.fn), ord)
	if x.orphanGiven == nil {
		x.orphanGiven = map[string]int{}
	}
	if o, ok := x.orphanGiven[key]; ok {
		return x.cur.Loops[o]
	}
	have := len(loopsOf(x.curFn).headers)
	var orphans []int
	for o := range x.cur.Loops {
		if o >= have {
			orphans = append(orphans, o)
		}
	}
	sort.Ints(orphans)
	used := map[int]bool{}
	for _, o := range x.orphanGiven {
		used[o] = true
	}
	for _, o := range orphans {
		if !used[o] {
			x.orphanGiven[key] = o
			x.used["loop-clauses-moved:"+fnKey(fr.fn)] = true
			return x.cur.Loops[o]
		}
	}
	return nil
}

// loopHeader handles arrival at a loop header; it always takes over control.
func (x *Exec) loopHeader(st *State, fr *Frame, h *ssa.BasicBlock, pred *ssa.BasicBlock, ord int, li *loopInfo, k exitK) bool {
	spec := x.loopSpec(fr, ord)
	if spec != nil && fr.depth > 0 {
		// "owninvariant" clauses belong to the function's own proof: an inlined instance neither
		// checks nor assumes them (fewer assumptions: sound)
		var keep []Clause
		for _, inv := range spec.Inv {
			if !inv.Own {
				keep = append(keep, inv)
			}
		}
		if len(keep) != len(spec.Inv) {
			cp := *spec
			cp.Inv = keep
			spec = &cp
		}
	}
	// compute incoming phi values
	idx := -1
	for i, p := range h.Preds {
		if p == pred {
			idx = i
		}
	}
	incoming := map[*ssa.Phi]*Val{}
	var phis []*ssa.Phi
	for _, in := range h.Instrs {
		phi, ok := in.(*ssa.Phi)
		if !ok {
			break
		}
		incoming[phi] = x.operand(st, fr, phi.Edges[idx])
		phis = append(phis, phi)
	}
	setPhis := func(vals map[*ssa.Phi]*Val) {
		fd := st.F(fr)
		for _, p := range phis {
			v := vals[p]
			fd.vals[p] = v
			if p.Comment != "" {
				fd.names[p.Comment] = v
			}
		}
	}
	label := fmt.Sprintf("%sloop%d", fr.prefix, ord)
	if x.fromBackEdge(h, pred) {
		// find the active record
		ri := -1
		for i := len(st.loops) - 1; i >= 0; i-- {
			if st.loops[i].frameID == fr.id && st.loops[i].header == h.Index {
				ri = i
				break
			}
		}
		if ri < 0 {
			engineErr("back edge to %s.%d without an active loop record", fr.fn, h.Index)
		}
		rec := st.loops[ri]
		setPhis(incoming)
		env := x.frameEnv(st, fr)
		env.traceBase = rec.traceLen // nemitted()/evis()/count() in invariants speak about this iteration
		env.atHeader = rec.atHeader  // atheader(v): the value v had when this iteration started
		if spec != nil {
			for i, inv := range spec.Inv {
				lbl := inv.Label
				if lbl == "" {
					lbl = fmt.Sprint(i)
				}
				g, note := safeEval(env, inv)
				x.emit(st, fmt.Sprintf("inv_step:%s.%s", label, lbl), "inv_step", g,
					fmt.Sprintf("loop %d invariant %q preserved in %s%s", ord, inv.Src, fr.fn.Name(), note))
			}
			if spec.Decr != nil && rec.decr != nil {
				d1 := env.typed(env.eval(spec.Decr.Expr), types.Typ[types.Int])
				m := st.m
				x.emit(st, fmt.Sprintf("decreases:%s", label), "decreases",
					and(m.le(m.idxLit(0), rec.decr.S), m.lt(x.toIdx(st, d1), rec.decr.S)),
					fmt.Sprintf("loop %d variant %q decreases in %s", ord, spec.Decr.Src, fr.fn.Name()))
			}
		}
		// declared loop frame: arrays outside 'loop n modifies' must be unchanged on a continuing iteration
		if spec != nil && len(spec.Modifies) > 0 && rec.heap != nil {
			allowed := map[string]bool{}
			for _, it := range spec.Modifies {
				if it == "none" {
					continue
				}
				for _, hk := range x.modifiesKeys(st, x.framePkg(fr), it) {
					allowed[hk.key] = true
				}
			}
			for _, k2 := range st.heapKeys() {
				cur, ok := st.heap[k2]
				if !ok || allowed[k2] || strings.HasPrefix(k2, "B|") {
					continue
				}
				old, ok := rec.heap[k2]
				if !ok {
					old = st.viewGet(rec.heap, k2, st.sorts[k2])
				}
				if cur.S == old.S {
					continue
				}
				goal := eq(cur, old)
				if !strings.HasPrefix(k2, "ghost|") && rec.alloc.S != "" {
					r := st.declare("sk.r", SInt)
					goal = implies(tm(SBool, "(<= %s %s)", r.S, rec.alloc.S), eq(sel(cur, r, arrayElemSort(cur.Sort)), sel(old, r, arrayElemSort(old.Sort))))
				}
				x.emit(st, fmt.Sprintf("loop_frame:%s.%s", label, k2), "frame", goal,
					fmt.Sprintf("loop %d of %s leaves heap array %s unchanged on objects that existed at the start of the iteration (not in its modifies clause)", ord, fr.fn.Name(), k2))
			}
		}
		if len(st.trace) > rec.traceLen && (spec == nil || !spec.Emits) {
			x.emit(st, fmt.Sprintf("loop_emits:%s", label), "inv_step", tFalse,
				fmt.Sprintf("loop %d of %s emits events on a continuing iteration but has no 'loop %d emits' clause", ord, fr.fn.Name(), ord))
		}
		// path ends here
		return true
	}
	// entry from outside
	setPhis(incoming)
	env := x.frameEnv(st, fr)
	env.traceBase = len(st.trace)
	if spec != nil {
		for i, inv := range spec.Inv {
			lbl := inv.Label
			if lbl == "" {
				lbl = fmt.Sprint(i)
			}
			g, note := safeEval(env, inv)
			x.emit(st, fmt.Sprintf("inv_entry:%s.%s", label, lbl), "inv_entry", g,
				fmt.Sprintf("loop %d invariant %q on entry in %s%s", ord, inv.Src, fr.fn.Name(), note))
		}
	}
	// havoc loop-carried values and the heap the loop may modify
	hv := map[*ssa.Phi]*Val{}
	for _, phi := range phis {
		hv[phi] = st.freshVal(fr.prefix+phi.Comment+"."+phi.Name(), phi.Type())
	}
	setPhis(hv)
	var keys []heapKey
	var freshOnly []heapKey // written by the loop but not in its modifies clause: may change only at objects allocated by the loop
	if spec != nil && len(spec.Modifies) > 0 {
		declared := map[string]bool{}
		for _, it := range spec.Modifies {
			if it == "none" {
				continue
			}
			for _, hk := range x.modifiesKeys(st, x.framePkg(fr), it) {
				declared[hk.key] = true
				keys = append(keys, hk)
			}
		}
		for _, hk := range x.loopWrites(st, fr, li.body[h]) {
			if !declared[hk.key] && hk.key != "*all*" && !strings.HasPrefix(hk.key, "ghost|") {
				freshOnly = append(freshOnly, hk)
			}
		}
	} else {
		keys = x.loopWrites(st, fr, li.body[h])
	}
	allocAtEntry := st.alloc
	for _, hk := range freshOnly {
		old := st.heapGet(hk.key, hk.sort)
		na := st.declare("Hf."+hk.key, hk.sort)
		r := freshName("r")
		st.assume(tm(SBool, "(forall ((%s Int)) (! (=> (<= %s %s) (= (select %s %s) (select %s %s))) :pattern ((select %s %s))))",
			r, r, allocAtEntry.S, na.S, r, old.S, r, na.S, r))
		st.heap[hk.key] = na
	}
	for _, hk := range keys {
		if hk.key == "*all*" {
			keep := map[string]Tm{}
			if spec != nil {
				for _, pr := range spec.Preserves {
					for _, pk := range x.modifiesKeys(st, x.framePkg(fr), pr) {
						keep[pk.key] = st.heapGet(pk.key, pk.sort)
					}
				}
			}
			st.havocAll()
			for k2, v := range keep {
				st.heap[k2] = v
			}
			break
		}
	}
	preserved := map[string]bool{}
	if spec != nil {
		for _, pr := range spec.Preserves {
			for _, pk := range x.modifiesKeys(st, x.framePkg(fr), pr) {
				preserved[pk.key] = true
			}
		}
	}
	hadAll := false
	for _, hk := range keys {
		if hk.key == "*all*" {
			hadAll = true
		}
	}
	for _, hk := range keys {
		if hadAll || hk.key == "*all*" || preserved[hk.key] {
			continue // havocAll above already forgot everything that is not preserved / local
		}
		if _, ok := st.sorts[hk.key]; !ok {
			st.sorts[hk.key] = hk.sort
		}
		st.heap[hk.key] = st.declare("Hl."+hk.key, hk.sort)
	}
	if x.loopAllocs(fr, li.body[h]) {
		na := st.declare("alloc", SInt)
		st.assume(tm(SBool, "(>= %s %s)", na.S, st.alloc.S))
		st.alloc = na
	}
	env = x.frameEnv(st, fr)
	env.traceBase = len(st.trace)
	rec := loopRec{header: h.Index, frameID: fr.id, traceLen: len(st.trace), heap: st.heapCopy(), alloc: st.alloc}
	if spec != nil {
		for _, inv := range spec.Inv {
			// an invariant that cannot be evaluated here was already reported (inv_entry); it is not assumed
			func() {
				defer func() {
					if r := recover(); r != nil {
						if _, ok := r.(*EngineError); !ok {
							panic(r)
						}
					}
				}()
				st.assume(env.hyp(inv))
			}()
		}
		if spec.Decr != nil {
			func() {
				defer func() {
					if r := recover(); r != nil {
						ee, ok := r.(*EngineError)
						if !ok {
							panic(r)
						}
						x.emit(st, fmt.Sprintf("decreases:%s", label), "decreases", tFalse, "loop variant cannot be evaluated: "+ee.Msg)
					}
				}()
				d := env.typed(env.eval(spec.Decr.Expr), types.Typ[types.Int])
				rec.decr = scalar(types.Typ[types.Int], KInt, st.define("variant", x.toIdx(st, d)))
			}()
		}
	}
	rec.atHeader = map[string]*Val{}
	for _, phi := range phis {
		if phi.Comment != "" {
			rec.atHeader[phi.Comment] = hv[phi]
		}
	}
	st.loops = append(st.loops, rec)
	x.runInstrs(st, fr, h, 0, k)
	return true
}

// loopAllocs reports whether the loop body may allocate.
func (x *Exec) loopAllocs(fr *Frame, body []*ssa.BasicBlock) bool {
	for _, b := range body {
		for _, in := range b.Instrs {
			switch in.(type) {
			case *ssa.Alloc, *ssa.MakeSlice, *ssa.MakeMap, *ssa.MakeChan, *ssa.MakeInterface, *ssa.MakeClosure, *ssa.Call, *ssa.Convert:
				return true
			}
		}
	}
	return false
}

// loopWrites over-approximates the heap arrays written by the blocks of a loop.
func (x *Exec) loopWrites(st *State, fr *Frame, body []*ssa.BasicBlock) []heapKey {
	seen := map[string]bool{}
	var out []heapKey
	add := func(ks []heapKey) {
		for _, k := range ks {
			if !seen[k.key] {
				seen[k.key] = true
				out = append(out, k)
			}
		}
	}
	visited := map[*ssa.Function]bool{}
	var scanFn func(fn *ssa.Function, blocks []*ssa.BasicBlock)
	scanFn = func(fn *ssa.Function, blocks []*ssa.BasicBlock) {
		for _, b := range blocks {
			for _, in := range b.Instrs {
				switch in := in.(type) {
				case *ssa.Store:
					add(x.addrKeys(st, in.Addr))
				case *ssa.MapUpdate:
					add(x.mapKeys(st, in.Map.Type()))
				case *ssa.Send:
					add(x.chanKeys(st))
				case *ssa.Select:
					add(x.chanKeys(st))
				case *ssa.UnOp:
					if in.Op.String() == "<-" {
						add(x.chanKeys(st))
					}
				case ssa.CallInstruction:
					cc := in.Common()
					if bi, ok := cc.Value.(*ssa.Builtin); ok {
						switch bi.Name() {
						case "append", "copy":
							if sl, ok := cc.Args[0].Type().Underlying().(*types.Slice); ok {
								for _, l := range st.m.leaves(sl.Elem()) {
									add([]heapKey{{elemKey(sl.Elem()) + "|" + l.path, ArrOf(SInt, ArrOf(st.m.idx(), l.sort))}})
								}
							}
						case "delete":
							add(x.mapKeys(st, cc.Args[0].Type()))
						case "close":
							add(x.chanKeys(st))
						}
						continue
					}
					var c *Contract
					var callee *ssa.Function
					if cc.IsInvoke() {
						c = x.cs.Funcs[ifaceMethodKey(cc.Method)]
						if c == nil {
							add(x.modifiesKeys(st, "", "all"))
							continue
						}
					} else if sc := cc.StaticCallee(); sc != nil {
						callee = sc
						c = x.cs.Funcs[fnKey(sc)]
					} else {
						// dynamic call: parameter contracts
						if fr.contract != nil {
							if p, ok := cc.Value.(*ssa.Parameter); ok && fr.contract.PureParams[p.Name()] {
								continue
							}
						}
						if dc := x.cs.Funcs["dyn:"+fnKey(fn)+":"+cc.Value.Name()]; dc != nil {
							c = dc
						} else if dc := x.cs.Funcs["functype:"+typeKey(cc.Value.Type())]; dc != nil {
							c = dc
						} else {
							add(x.modifiesKeys(st, "", "all"))
							continue
						}
					}
					if callee != nil {
						if bmw, ok := builtinWrites[fnKey(callee)]; ok {
							add(bmw(x, st))
							continue
						}
					}
					if c != nil && !c.Inline {
						for _, it := range c.Modifies {
							add(x.modifiesKeys(st, c.Pkg, it))
						}
						continue
					}
					if callee != nil && callee.Blocks != nil {
						if !visited[callee] {
							visited[callee] = true
							scanFn(callee, callee.Blocks)
						}
						continue
					}
					if callee != nil {
						if lookupBuiltinModel(fnKey(callee)) != nil {
							continue
						}
					}
					add(x.modifiesKeys(st, "", "all"))
				}
			}
		}
	}
	scanFn(fr.fn, body)
	return out
}

// addrKeys: heap arrays a store through addr may write.
func (x *Exec) addrKeys(st *State, addr ssa.Value) []heapKey {
	m := st.m
	var path []string
	v := addr
	for {
		switch a := v.(type) {
		case *ssa.FieldAddr:
			stt := deref(a.X.Type()).Underlying().(*types.Struct)
			path = append([]string{stt.Field(a.Field).Name()}, path...)
			v = a.X
			continue
		case *ssa.IndexAddr:
			var et types.Type
			switch t := a.X.Type().Underlying().(type) {
			case *types.Slice:
				et = t.Elem()
			case *types.Pointer:
				et = t.Elem().Underlying().(*types.Array).Elem()
			}
			return x.keysUnder(m, elemKey(et), et, path, true)
		}
		break
	}
	root := deref(v.Type())
	if _, isArr := root.Underlying().(*types.Array); isArr && len(path) == 0 {
		et := root.Underlying().(*types.Array).Elem()
		return x.keysUnder(m, elemKey(et), et, nil, true)
	}
	if g, ok := v.(*ssa.Global); ok {
		return x.keysUnder(m, "G|"+g.Pkg.Pkg.Path()+"."+g.Name(), root, path, false)
	}
	return x.keysUnder(m, objKey(root), root, path, false)
}

func (x *Exec) keysUnder(m Mode, prefix string, root types.Type, path []string, elem bool) []heapKey {
	t := root
	pre := ""
	for _, f := range path {
		stt := t.Underlying().(*types.Struct)
		for i := 0; i < stt.NumFields(); i++ {
			if stt.Field(i).Name() == f {
				t = stt.Field(i).Type()
				pre += "." + f
				break
			}
		}
	}
	var out []heapKey
	for _, l := range m.leaves(t) {
		s := ArrOf(SInt, l.sort)
		if elem {
			s = ArrOf(SInt, ArrOf(m.idx(), l.sort))
		}
		out = append(out, heapKey{prefix + "|" + pre + l.path, s})
	}
	return out
}

// pureParamApp: a call of a func-typed parameter declared 'pure' is an
// uninterpreted function of the closure value and the arguments.
func (x *Exec) pureParamApp(st *State, fn *ssa.Function, name string, fnv *Val, args []*Val, sig *types.Signature) []*Val {
	rs := sig.Results()
	var res []*Val
	for i := 0; i < rs.Len(); i++ {
		ls := st.m.leaves(rs.At(i).Type())
		ts := make([]Tm, len(ls))
		for j, l := range ls {
			var argSorts, argTerms []string
			for _, t := range fnv.flatten() {
				argSorts = append(argSorts, string(t.Sort))
				argTerms = append(argTerms, t.S)
			}
			for _, a := range args {
				for _, t := range a.flatten() {
					argSorts = append(argSorts, string(t.Sort))
					argTerms = append(argTerms, t.S)
				}
			}
			uf := fmt.Sprintf("pure_%s_%s_%d_%d_%s", sanitize(shortFn(fn)), sanitize(name), i, j, st.m)
			x.declUF(uf, fmt.Sprintf("(declare-fun %s (%s) %s)", uf, strings.Join(argSorts, " "), l.sort))
			ts[j] = tm(l.sort, "(%s %s)", uf, strings.Join(argTerms, " "))
		}
		res = append(res, st.m.build(rs.At(i).Type(), ts))
	}
	return res
}

// havocSlice: "modifies slice <e>": only the elements e[0..len(e)) of e's backing array change.
func (x *Exec) havocSlice(st *State, c *Contract, src string, env *CEnv) {
	cl, err := parseClause(src, c.File, c.Line, false)
	if err != nil {
		engineErr("%v", err)
	}
	v := env.eval(cl.Expr)
	if v.K != KSlice {
		engineErr("modifies slice %s: not a slice", src)
	}
	m := st.m
	et := v.T.Underlying().(*types.Slice).Elem()
	for _, l := range m.leaves(et) {
		key := elemKey(et) + "|" + l.path
		inner := ArrOf(m.idx(), l.sort)
		h := st.heapGet(key, ArrOf(SInt, inner))
		old := sel(h, v.arr(), inner)
		na := st.declare("sl", inner)
		i := Tm{freshName("i"), m.idx()}
		inR := and(m.le(v.off(), i), m.lt(i, m.add(v.off(), v.ln())))
		st.assume(tm(SBool, "(forall ((%s %s)) (! (=> (not %s) (= (select %s %s) (select %s %s))) :pattern ((select %s %s))))",
			i.S, m.idx(), inR.S, na.S, i.S, old.S, i.S, na.S, i.S))
		st.heapSet(key, store(h, v.arr(), na))
	}
}

var traceForms = map[string]bool{"evis": true, "evarg": true, "evres": true, "evrecv": true, "count": true, "nemitted": true, "first": true, "last": true, "at": true}

// mentionsTrace: does a clause speak about events of the ghost trace?
func mentionsTrace(e ast.Expr) bool {
	found := false
	ast.Inspect(e, func(n ast.Node) bool {
		if ce, ok := n.(*ast.CallExpr); ok {
			if id, ok := ce.Fun.(*ast.Ident); ok && traceForms[id.Name] {
				found = true
			}
		}
		return !found
	})
	return found
}

// framePkg: the package against which contract names are resolved in a frame (the verified
// function's contract for helpers without one).
func (x *Exec) framePkg(fr *Frame) string {
	if fr.contract != nil {
		return fr.contract.Pkg
	}
	if x.cur != nil {
		return x.cur.Pkg
	}
	return ""
}
