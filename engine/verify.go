package main

// Verification of one function against its contract; lemmas.

import (
	"fmt"
	"go/ast"
	"go/types"
	"os"
	"path/filepath"
	"sort"
	"strings"

	"golang.org/x/tools/go/packages"
	"golang.org/x/tools/go/ssa"
	"golang.org/x/tools/go/ssa/ssautil"
)

type Loaded struct {
	missing []*Contract // contracts naming functions that do not exist in the current tree
	renamed []string    // unexported functions bound to the contract of a function that no longer exists (renames)
	prog    *ssa.Program
	pkgs    []*packages.Package
	fnByKey map[string][]*ssa.Function
	cs      *Contracts
}

func goEnv() []string {
	return append(os.Environ(), "GOFLAGS=-mod=mod", "GOPROXY=off", "GOSUMDB=off", "GOTOOLCHAIN=local")
}

func loadRepo(repo string, stdlibContracts string) (*Loaded, error) {
	cfg := &packages.Config{Mode: packages.LoadAllSyntax, Dir: repo, BuildFlags: []string{"-tags=verif"}, Env: goEnv()}
	pkgs, err := packages.Load(cfg, "./...")
	if err != nil {
		return nil, err
	}
	bad := false
	packages.Visit(pkgs, nil, func(p *packages.Package) {
		for _, e := range p.Errors {
			if strings.HasPrefix(p.PkgPath, "github.com/go-netty/") {
				fmt.Fprintf(os.Stderr, "load error: %s: %v\n", p.PkgPath, e)
				bad = true
			}
		}
	})
	if bad {
		return nil, fmt.Errorf("repository does not type-check")
	}
	prog, _ := ssautil.AllPackages(pkgs, ssa.InstantiateGenerics|ssa.GlobalDebug)
	prog.Build()
	ld := &Loaded{prog: prog, pkgs: pkgs, fnByKey: map[string][]*ssa.Function{}, cs: newContracts()}
	for fn := range ssautil.AllFunctions(prog) {
		if fn.TypeParams().Len() > 0 && len(fn.TypeArgs()) == 0 {
			continue // uninstantiated generic
		}
		k := fnKey(fn)
		ld.fnByKey[k] = append(ld.fnByKey[k], fn)
	}
	for k := range ld.fnByKey {
		fs := ld.fnByKey[k]
		sort.Slice(fs, func(i, j int) bool { return fs[i].String() < fs[j].String() })
	}
	if stdlibContracts != "" {
		files, _ := filepath.Glob(filepath.Join(stdlibContracts, "*.contracts"))
		sort.Strings(files)
		for _, f := range files {
			if err := ld.cs.parseFile(f, ""); err != nil {
				return nil, err
			}
		}
	}
	for _, p := range pkgs {
		if !strings.HasPrefix(p.PkgPath, "github.com/go-netty/") {
			continue
		}
		for _, f := range p.GoFiles {
			if filepath.Base(f) == "zz_contracts_verif.go" {
				if err := ld.cs.parseFile(f, p.PkgPath); err != nil {
					return nil, err
				}
			}
		}
	}
	// a contract whose (unexported) function is gone while exactly one unexported function of the same
	// receiver/package with the same number of parameters and results has no contract: the function
	// was renamed - the contract is checked against it under the old name
	renamedFns = map[string]string{}
	owner := func(k string) (string, string) {
		if i := strings.LastIndex(k, ")."); i >= 0 {
			return k[:i+2], k[i+2:]
		}
		if i := strings.LastIndex(k, "."); i >= 0 {
			return k[:i+1], k[i+1:]
		}
		return "", k
	}
	unexported := func(n string) bool { return n != "" && n[0] >= 'a' && n[0] <= 'z' && !strings.Contains(n, "$") }
	for _, k := range ld.cs.Order {
		c := ld.cs.Funcs[k]
		if c.Iface || c.Assumed || strings.HasPrefix(k, "functype:") || strings.HasPrefix(k, "dyn:") || len(ld.fnByKey[k]) != 0 {
			continue
		}
		ow, name := owner(k)
		if !unexported(name) {
			continue
		}
		var cands []string
		for k2, fs := range ld.fnByKey {
			ow2, name2 := owner(k2)
			if ow2 != ow || !unexported(name2) || ld.cs.Funcs[k2] != nil || len(fs) == 0 || fs[0].Synthetic != "" || fs[0].Parent() != nil || fs[0].Blocks == nil {
				continue
			}
			np := fs[0].Signature.Params().Len()
			if fs[0].Signature.Recv() != nil {
				np++
			}
			if (len(c.ParamNames) > 0 && len(c.ParamNames) != np) || (len(c.ResultNames) > 0 && len(c.ResultNames) != fs[0].Signature.Results().Len()) {
				continue
			}
			cands = append(cands, k2)
		}
		if len(cands) == 1 {
			renamedFns[cands[0]] = k
			ld.renamed = append(ld.renamed, cands[0]+" is checked against the contract of "+k)
		}
	}
	if len(renamedFns) > 0 {
		ld.fnByKey = map[string][]*ssa.Function{}
		for fn := range ssautil.AllFunctions(prog) {
			if fn.TypeParams().Len() > 0 && len(fn.TypeArgs()) == 0 {
				continue
			}
			k := fnKey(fn)
			ld.fnByKey[k] = append(ld.fnByKey[k], fn)
		}
		for k := range ld.fnByKey {
			fs := ld.fnByKey[k]
			sort.Slice(fs, func(i, j int) bool { return fs[i].String() < fs[j].String() })
		}
	}
	// every contract must name something that exists
	for _, k := range ld.cs.Order {
		c := ld.cs.Funcs[k]
		if c.Iface || strings.HasPrefix(k, "functype:") || strings.HasPrefix(k, "dyn:") {
			continue
		}
		if len(ld.fnByKey[k]) == 0 {
			if c.Assumed {
				continue // assumed contract for a library function this build does not reach
			}
			ld.missing = append(ld.missing, c)
		}
	}
	return ld, nil
}

func (x *Exec) allFns() map[string][]*ssa.Function { return x.ld.fnByKey }

func (ld *Loaded) newExec() *Exec {
	helperHasContract = func(fn *ssa.Function) bool {
		return ld.cs.Funcs[fnKey(fn)] != nil || fn.Parent() != nil
	}
	inlinedFn = func(fn *ssa.Function) bool {
		c := ld.cs.Funcs[fnKey(fn)]
		return c != nil && c.Inline
	}
	return &Exec{ld: ld, prog: ld.prog, cs: ld.cs, typeIDs: map[string]int{}, typeByID: map[int]types.Type{}, ifaceSet: map[string]*types.Interface{},
		ufDecls: map[string]string{}, obls: map[string]*Obligation{}, maxPaths: 4000, used: map[string]bool{}, sentinel: map[string]bool{},
		forallVs: map[string]*Val{}}
}

type FuncResult struct {
	FalseAssumes int
	Key    string
	Obls   []*Obligation
	Used   []string
	Err    string
	Paths  int
	Mode   string
	NInsts int
}

// verifyFunction generates the obligations of every instance of the function
// named by contract c.
func (ld *Loaded) verifyFunction(c *Contract) (res *FuncResult) {
	res = &FuncResult{Key: c.Key}
	fns := ld.fnByKey[c.Key]
	res.NInsts = len(fns)
	for i, fn := range fns {
		x := ld.newExec()
		x.cur = c
		x.curFn = fn
		if len(fns) > 1 {
			x.curSuffix = "[" + instSuffix(fn) + "]"
		}
		_ = i
		func() {
			defer func() {
				if r := recover(); r != nil {
					if ee, ok := r.(*EngineError); ok {
						res.Err = ee.Msg
						return
					}
					if s, ok := r.(string); ok {
						res.Err = "internal: " + s
						return
					}
					panic(r)
				}
			}()
			x.verify(fn, c)
		}()
		for _, n := range x.oblOrder {
			res.Obls = append(res.Obls, x.obls[n])
		}
		for k := range x.used {
			res.Used = append(res.Used, k)
		}
		res.Paths += x.paths
		res.FalseAssumes += x.falseAssumes
		res.Mode = x.mode.String()
		if res.Err != "" {
			break
		}
	}
	sort.Strings(res.Used)
	return res
}

func instSuffix(fn *ssa.Function) string {
	var parts []string
	for _, t := range fn.TypeArgs() {
		parts = append(parts, types.TypeString(t, func(p *types.Package) string { return p.Name() }))
	}
	if len(parts) == 0 {
		return fn.Name()
	}
	return strings.Join(parts, ",")
}

func (x *Exec) newState(m Mode) *State {
	return &State{m: m, heap: map[string]Tm{}, sorts: map[string]Sort{}, alloc: Tm{"0", SInt}, x: x, frames: map[int]*frameData{}}
}

// sanitizeFrame: a frame item (modifies / preserves, also of loops) that no longer resolves - the
// field or type it names was removed or renamed by a change to the code - becomes a failed
// obligation "contract:frame" of the function instead of aborting the whole function: the other
// obligations are still generated, with the item dropped.
func (x *Exec) sanitizeFrame(st *State, c *Contract) *Contract {
	ok := func(item string) (good bool) {
		if item == "none" || item == "nothing" {
			return true
		}
		defer func() {
			if r := recover(); r != nil {
				if ee, isEE := r.(*EngineError); isEE {
					x.emit(st, "contract:frame", "contract", tFalse, "frame item "+item+" of the contract cannot be resolved on this tree: "+ee.Msg)
					good = false
					return
				}
				panic(r)
			}
		}()
		x.modifiesKeys(st, c.Pkg, item)
		return true
	}
	filter := func(items []string) []string {
		var out []string
		for _, it := range items {
			if ok(it) {
				out = append(out, it)
			}
		}
		return out
	}
	cc := *c
	cc.Modifies = filter(c.Modifies)
	cc.Preserves = filter(c.Preserves)
	cc.Loops = map[int]*LoopSpec{}
	for k, l := range c.Loops {
		ll := *l
		ll.Modifies = filter(l.Modifies)
		ll.Preserves = filter(l.Preserves)
		cc.Loops[k] = &ll
	}
	return &cc
}

func (x *Exec) verify(fn *ssa.Function, c *Contract) {
	m := modeOf(c.Mode)
	x.mode = m
	st := x.newState(m)
	c = x.sanitizeFrame(st, c)
	x.cur = c
	fr := x.newFrame(fn, nil, st)
	fr.entryHeap = map[string]Tm{}
	var args []*Val
	for _, p := range fn.Params {
		v := st.freshVal("p."+p.Name(), p.Type())
		args = append(args, v)
		st.F(fr).vals[p] = v
		st.F(fr).names[p.Name()] = v
		for _, t := range v.flatten() {
			x.inputTerms = append(x.inputTerms, t.S)
		}
	}
	if len(c.ParamNames) == len(fn.Params) {
		for i, n := range c.ParamNames {
			if n != "_" && n != fn.Params[i].Name() {
				if _, have := st.F(fr).names[n]; !have {
					st.F(fr).names[n] = args[i] // the contract's name for a parameter the code has renamed
				}
			}
		}
	}
	for _, fv := range fn.FreeVars {
		v := st.freshVal("fv."+fv.Name(), fv.Type())
		if v.K == KPtr {
			st.assume(not(eq(v.S, Tm{"0", SInt}))) // captured variables are held by (non-nil) reference
		}
		fr.binds = append(fr.binds, v)
	}
	env := x.callEnv(st, c, fn.Signature, fn, args, fr.binds)
	env.oldHeap = fr.entryHeap
	for _, fa := range c.Foralls {
		t := x.resolveType(c.Pkg, fa.Type)
		v := st.freshVal("all."+fa.Name, t)
		x.forallVs[fa.Name] = v
		env.vars[fa.Name] = v
		for _, t := range v.flatten() {
			x.inputTerms = append(x.inputTerms, t.S)
		}
	}
	// quantified hypotheses that the contract instantiates explicitly ('after ... instantiate')
	// are used only through those instances: queries stay quantifier-free and failures have models
	instOnly := map[string]bool{}
	for _, a := range c.After {
		if a.Inst {
			if ce, ok := a.Cl.Expr.(*ast.CallExpr); ok {
				if id, ok := ce.Fun.(*ast.Ident); ok {
					instOnly[id.Name] = true
				}
			}
		}
	}
	for _, r := range c.Requires {
		if r.Label != "" && instOnly[r.Label] {
			continue
		}
		g, note := safeEval(env.withPol(2), r)
		if note != "" {
			// the precondition no longer makes sense for this function (parameter renamed,
			// method replaced by a promoted one, ...): the contract is not met
			x.emit(st, "contract:requires", "pre", tFalse, fmt.Sprintf("requires %q%s", r.Src, note))
			return
		}
		st.assume(g)
	}
	for _, r := range c.Assumes {
		if r.Label != "" && instOnly[r.Label] {
			continue
		}
		st.assume(env.hyp(r))
	}
	// struct invariants of pointer parameters are part of the precondition
	for i, p := range fn.Params {
		x.assumeStructInv(st, env, args[i], p.Type())
	}
	x.emitCover(st, "cover:pre", "precondition of "+c.Key+" is satisfiable")
	var panicCond *Clause
	exact := false
	if c.PanicsIff != nil {
		panicCond, exact = c.PanicsIff, true
	} else if c.MayPanic != nil {
		panicCond = c.MayPanic
	}
	exitEnv := func(s *State, res []*Val, pan *Val) *CEnv {
		e2 := *env
		e2.st = s
		e2.vars = map[string]*Val{}
		for k, v := range env.vars {
			e2.vars[k] = v
		}
		e2.traceBase = 0
		e2.frame = fr
		e2.allocBefore = Tm{"0", SInt}
		if pan != nil {
			e2.panicked = true
			e2.panicVal = pan
		} else {
			for i, r := range res {
				e2.vars[fmt.Sprintf("result%d", i)] = r
				rs := fn.Signature.Results()
				if n := rs.At(i).Name(); n != "" && n != "_" {
					e2.vars[n] = r
				}
				if i < len(c.ResultNames) && c.ResultNames[i] != "_" {
					if _, clash := e2.vars[c.ResultNames[i]]; !clash {
						e2.vars[c.ResultNames[i]] = r
					}
				}
			}
			if len(res) == 1 {
				e2.vars["result"] = res[0]
			}
		}
		return &e2
	}
	x.runBlock(st, fr, fn.Blocks[0], nil, func(s *State, res []*Val, pan *Val) {
		e2 := exitEnv(s, res, pan)
		if os.Getenv("VCGEN_TRACE") != "" {
			var names []string
			for _, ev := range s.trace {
				names = append(names, ev.Short)
			}
			kind := "return"
			if pan != nil {
				kind = "panic"
			}
			fmt.Fprintf(os.Stderr, "TRACE %s %s: %s\n", c.Short, kind, strings.Join(names, " | "))
		}
		if pan != nil {
			// panic exit
			if panicCond == nil {
				x.emit(s, "nopanic", "post_panic", tFalse, "no path of "+c.Key+" ends in a panic")
			} else {
				old := *e2
				old.inOld = true
				x.emit(s, "panic_allowed", "post_panic", old.evalBool(*panicCond), "panic only under the declared condition")
			}
			for i, en := range c.EnsuresP {
				lbl := en.Label
				if lbl == "" {
					lbl = fmt.Sprint(i)
				}
				g, note := safeEval(e2, en)
				x.emit(s, "post_panic:"+lbl, "post_panic", g, fmt.Sprintf("ensures_panic %q%s", en.Src, note))
			}
			if panicCond != nil {
				x.emitCover(s, "cover:panic_exit", "a panic exit of "+c.Key+" is reachable")
			}
			return
		}
		// ghost statements at normal exit
		var exitGhost []AfterClause
		for _, a := range c.After {
			if a.Callee == "exit" {
				exitGhost = append(exitGhost, a)
			}
		}
		if len(exitGhost) > 0 {
			x.runGhost(s, fr, e2, exitGhost, 0)
		}
		if exact {
			old := *e2
			old.inOld = true
			x.emit(s, "panic_required", "post", not(old.evalBool(*panicCond)), "normal return only when the panic condition is false")
		}
		for i, en := range c.Ensures {
			lbl := en.Label
			if lbl == "" {
				lbl = fmt.Sprint(i)
			}
			g, note := safeEval(e2, en)
			if len(c.Split) > 0 && en.Label != "" && splitApplies(c.Split, en.Label) && note == "" {
				x.splitEmit(s, e2, splitFor(c.Split, en.Label), "post:"+lbl, "post", g, fmt.Sprintf("ensures %q", en.Src))
				continue
			}
			x.emit(s, "post:"+lbl, "post", g, fmt.Sprintf("ensures %q%s", en.Src, note))
		}
		if c.HasMod {
			x.frameObligations(s, c, fr)
		}
		x.closureObligations(s)
		x.emitCover(s, "cover:exit", "a normal exit of "+c.Key+" is reachable")
	})
	// every declared clause must have produced an obligation (a function with no normal exit has vacuous posts)
	for i, en := range c.Ensures {
		lbl := en.Label
		if lbl == "" {
			lbl = fmt.Sprint(i)
		}
		x.obligation("post:"+lbl, "post")
	}
}

// safeEval evaluates a clause to be proved; a clause that cannot be evaluated on the
// current code (a name it mentions is gone, an event it speaks about was not emitted)
// is a failed obligation, not an engine error.
func safeEval(env *CEnv, cl Clause) (goal Tm, note string) {
	defer func() {
		if r := recover(); r != nil {
			if ee, ok := r.(*EngineError); ok {
				goal, note = tFalse, " [clause cannot be evaluated on this path: "+ee.Msg+"]"
				return
			}
			if s, ok := r.(string); ok {
				goal, note = tFalse, " [clause cannot be evaluated on this path: "+s+"]"
				return
			}
			panic(r)
		}
	}()
	if env.pol == 2 {
		return env.hyp(cl), ""
	}
	return env.goal(cl), ""
}

// assumeStructInv assumes declared struct invariants for a pointer-to-struct value.
func (x *Exec) assumeStructInv(st *State, env *CEnv, v *Val, t types.Type) {
	pt, ok := t.Underlying().(*types.Pointer)
	if !ok {
		return
	}
	named := typeKey(pt.Elem())
	if i := strings.Index(named, "["); i >= 0 {
		named = named[:i]
	}
	for _, inv := range x.cs.Invs {
		if inv.Type == named && inv.Lock == "" {
			sub := &CEnv{x: x, st: st, vars: map[string]*Val{"self": v}, pkg: inv.Pkg, oldHeap: env.oldHeap, contract: env.contract}
			st.assume(tm(SBool, "(=> (not (= %s 0)) %s)", v.S.S, sub.hyp(inv.Cl).S))
		}
	}
}

// frameObligations: heap arrays not covered by the modifies clause are unchanged
// at every reference that existed on entry.
func (x *Exec) frameObligations(st *State, c *Contract, fr *Frame) {
	allowed := map[string]bool{}
	for _, it := range c.Modifies {
		for _, k := range x.modifiesKeys(st, c.Pkg, it) {
			allowed[k.key] = true
		}
	}
	for _, k := range st.heapKeys() {
		cur, ok := st.heap[k]
		if !ok || allowed[k] || strings.HasPrefix(k, "B|") {
			continue
		}
		init := Tm{"H0!" + sanitize(k), st.sorts[k]}
		if cur.S == init.S {
			continue
		}
		if gd := x.cs.Ghosts[strings.TrimPrefix(k, "ghost|")]; strings.HasPrefix(k, "ghost|") && gd != nil && ghostIsLocal(gd) {
			continue
		}
		var goal Tm
		if strings.HasPrefix(k, "ghost|") {
			goal = eq(cur, init)
		} else {
			es := arrayElemSort(st.sorts[k])
			r := freshName("r")
			goal = tm(SBool, "(forall ((%s Int)) (=> (<= %s 0) (= (select %s %s) (select %s %s))))", r, r, cur.S, r, init.S, r)
			_ = es
		}
		x.emit(st, "frame:"+k, "frame", goal, "heap array "+k+" unchanged on pre-existing objects (not in modifies)")
	}
}

// ---------------------------------------------------------------------------
// lemmas

func (ld *Loaded) verifyLemma(l *Lemma) *FuncResult {
	res := &FuncResult{Key: "lemma:" + l.Name}
	x := ld.newExec()
	c := &Contract{Key: "lemma:" + l.Name, Short: shortStem(l.Pkg, "lemma"), Pkg: l.Pkg, Props: l.Props, Mode: l.Mode}
	x.cur = c
	func() {
		defer func() {
			if r := recover(); r != nil {
				if ee, ok := r.(*EngineError); ok {
					res.Err = ee.Msg
					return
				}
				panic(r)
			}
		}()
		m := modeOf(l.Mode)
		x.mode = m
		st := x.newState(m)
		env := &CEnv{x: x, st: st, vars: map[string]*Val{}, pkg: l.Pkg, contract: c}
		for _, p := range l.Params {
			t := x.resolveType(l.Pkg, p.Type)
			v := st.freshVal("v."+p.Name, t)
			env.vars[p.Name] = v
			for _, t := range v.flatten() {
				x.inputTerms = append(x.inputTerms, t.S)
			}
		}
		goal := env.goal(l.Cl)
		if len(l.Split) == 0 {
			x.emit(st, "lemma:"+l.Name, "lemma", goal, l.Cl.Src)
			return
		}
		x.splitEmit(st, env, l.Split, "lemma:"+l.Name, "lemma", goal, l.Cl.Src)
	}()
	for _, n := range x.oblOrder {
		res.Obls = append(res.Obls, x.obls[n])
	}
	res.Mode = x.mode.String()
	return res
}

// a split clause may be restricted to one ensures label: "split <label>: <expr> pow2 lo hi"
func splitApplies(splits []string, label string) bool { return len(splitFor(splits, label)) > 0 }

func splitFor(splits []string, label string) []string {
	var out []string
	for _, s := range splits {
		if i := strings.Index(s, ":"); i >= 0 {
			if strings.TrimSpace(s[:i]) == label {
				out = append(out, strings.TrimSpace(s[i+1:]))
			}
			continue
		}
		out = append(out, s)
	}
	return out
}

// splitEmit: "split <expr> pow2 <lo> <hi>" proves goal separately for expr == 2^k,
// k = lo..hi, plus the exhaustiveness of the split under the path facts.
func (x *Exec) splitEmit(st *State, env *CEnv, splits []string, name, kind string, goal Tm, desc string) {
	fs := strings.Fields(splits[0])
	if len(fs) != 4 || fs[1] != "pow2" {
		engineErr("bad split clause %q (want: split <expr> pow2 <lo> <hi>)", splits[0])
	}
	cl, err := parseClause(fs[0], "", 0, false)
	if err != nil {
		engineErr("split: %v", err)
	}
	var lo, hi int
	fmt.Sscanf(fs[2], "%d", &lo)
	fmt.Sscanf(fs[3], "%d", &hi)
	v := env.eval(cl.Expr)
	m := st.m
	var cases []Tm
	for k := lo; k <= hi; k++ {
		c := eq(v.S, m.lit(pow2(k), goInt))
		cases = append(cases, c)
		s2 := st.clone()
		s2.assume(c)
		x.emit(s2, fmt.Sprintf("%s[k=%d]", name, k), kind, goal, desc)
	}
	x.emit(st, name+"[exhaustive]", kind, or(cases...), "the case split is exhaustive")
}

// localsOf lists the local variables a function declares (not parameters, results or fields; the
// bodies of nested function literals are skipped), in source order.
var localsCache = map[*ssa.Function][]string{}

func (ld *Loaded) localsOf(fn *ssa.Function) []string {
	if v, ok := localsCache[fn]; ok {
		return v
	}
	var out []string
	syn := fn.Syntax()
	if o := fn.Origin(); syn == nil && o != nil {
		syn = o.Syntax()
	}
	var info *types.Info
	tp := typesPkgOf(fn)
	for _, p := range ld.pkgs {
		if tp != nil && p.PkgPath == tp.Path() {
			info = p.TypesInfo
		}
	}
	if syn != nil && info != nil {
		var body *ast.BlockStmt
		skip := map[*ast.Ident]bool{}
		switch d := syn.(type) {
		case *ast.FuncDecl:
			body = d.Body
		case *ast.FuncLit:
			body = d.Body
		}
		if body != nil {
			ast.Inspect(body, func(n ast.Node) bool {
				if fl, ok := n.(*ast.FuncLit); ok && n != syn {
					_ = fl
					return false
				}
				if id, ok := n.(*ast.Ident); ok && !skip[id] {
					if v, ok := info.Defs[id].(*types.Var); ok && !v.IsField() && id.Name != "_" {
						out = append(out, id.Name)
					}
				}
				return true
			})
		}
	}
	localsCache[fn] = out
	return out
}
