package main

// Discharging queries: z3-new first, then z3 4.8.12 and cvc5 raced (DESIGN.md 2.5).

import (
	"crypto/sha256"
	"encoding/hex"
	"bytes"
	"context"
	"fmt"
	"os"
	"os/exec"
	"path/filepath"
	"strings"
	"sync"
	"time"
)

type SolverCfg struct {
	CacheDir string // development runs (mutants): verdicts of identical queries are reused
	NoPatient bool // mutant runs: no second chance for undecided queries
	WorkDir   string
	Timeout   time.Duration // per solver attempt
	Cross     bool          // confirm every unsat with a second solver family
	Parallel  int
	KeepFiles bool
}

type solverStats struct {
	mu       sync.Mutex
	byBack   map[string]int
	secs     float64
	queries  int
	crossOK  int
	crossBad []string
}

func runSolver(ctx context.Context, name string, args []string, file string, timeout time.Duration) (string, float64) {
	cctx, cancel := context.WithTimeout(ctx, timeout+2*time.Second)
	defer cancel()
	t0 := time.Now()
	cmd := exec.CommandContext(cctx, name, append(args, file)...)
	var out bytes.Buffer
	cmd.Stdout = &out
	cmd.Stderr = &out
	_ = cmd.Run()
	secs := time.Since(t0).Seconds()
	first := ""
	for _, l := range strings.Split(out.String(), "\n") {
		l = strings.TrimSpace(l)
		if l == "" || strings.HasPrefix(l, ";") {
			continue
		}
		first = l
		break
	}
	switch first {
	case "sat", "unsat", "unknown":
		return first, secs
	}
	if cctx.Err() != nil || strings.Contains(first, "timeout") {
		return "timeout", secs
	}
	return "error: " + first, secs
}

type solverDef struct {
	name string
	bin  string
	args func(sec int) []string
}

var solvers = []solverDef{
	{"z3-new", "z3-new", func(sec int) []string { return []string{fmt.Sprintf("-T:%d", sec)} }},
	{"z3", "z3", func(sec int) []string { return []string{fmt.Sprintf("-T:%d", sec)} }},
	{"cvc5", "cvc5", func(sec int) []string { return []string{fmt.Sprintf("--tlimit=%d", sec*1000)} }},
}

var raceSem = make(chan struct{}, 5)

// solveQuery decides one query. Verdict: unsat | sat | unknown | timeout | error
//   1. quantified queries: z3-new restricted to E-matching (our quantifiers carry explicit
//      triggers; this is the fast, stable configuration for valid goals)
//   2. z3-new, default configuration (model-based instantiation: finds counterexamples)
//   3. race z3-new / z3 4.8.12 / cvc5 with the full budget
func solveQuery(cfg *SolverCfg, q *Query, file string, stats *solverStats) {
	sec := int(cfg.Timeout.Seconds())
	if sec < 1 {
		sec = 1
	}
	ctx := context.Background()
	quick := sec
	if quick > 6 {
		quick = 6
	}
	if sec >= 120 {
		quick = 60 // patient retry: the cheap configurations get a real chance first
	}
	if q.Cover && quick > 2 {
		quick = 2
	}
	quantified := strings.Contains(q.SMT, "(forall ") || strings.Contains(q.SMT, "(exists ")
	var v, solver string
	var total float64
	if quantified && !q.Cover {
		args := append([]string{"smt.auto_config=false", "smt.mbqi=false", "smt.ematching=true"}, solvers[0].args(quick)...)
		vv, s := runSolver(ctx, solvers[0].bin, args, file, time.Duration(quick)*time.Second)
		total += s
		if vv == "unsat" {
			v, solver = vv, "z3-new(ematch)"
		}
	}
	if v == "" {
		vv, s := runSolver(ctx, solvers[0].bin, solvers[0].args(quick), file, time.Duration(quick)*time.Second)
		total += s
		v, solver = vv, solvers[0].name
	}
	if v != "sat" && v != "unsat" && !q.Cover {
		// race all three with the full budget
		type r struct {
			v, name string
			s       float64
		}
		raceSem <- struct{}{}
		rctx, cancel := context.WithCancel(ctx)
		ch := make(chan r, len(solvers)+1)
		n := 0
		for _, sd := range solvers {
			sd := sd
			n++
			go func() {
				vv, ss := runSolver(rctx, sd.bin, sd.args(sec), file, time.Duration(sec)*time.Second)
				ch <- r{vv, sd.name, ss}
			}()
		}
		if quantified {
			n++
			go func() {
				args := append([]string{"smt.auto_config=false", "smt.mbqi=false", "smt.ematching=true"}, solvers[0].args(sec)...)
				vv, ss := runSolver(rctx, solvers[0].bin, args, file, time.Duration(sec)*time.Second)
				if vv != "unsat" {
					vv = "unknown"
				}
				ch <- r{vv, "z3-new(ematch)", ss}
			}()
		}
		best := r{v: v, name: solver}
		for i := 0; i < n; i++ {
			got := <-ch
			if got.v == "sat" || got.v == "unsat" {
				best = got
				break
			}
			if best.v != "unknown" && got.v == "unknown" {
				best.v, best.name = got.v, got.name
			} else if strings.HasPrefix(best.v, "error") && got.v == "timeout" {
				best.v, best.name = got.v, got.name
			}
			if got.s > best.s {
				best.s = got.s
			}
		}
		cancel()
		<-raceSem
		v, solver = best.v, best.name
		total += best.s
	}
	q.Verdict, q.Solver, q.Secs = v, solver, total
	stats.mu.Lock()
	stats.queries++
	stats.secs += total
	stats.byBack[solver]++
	stats.mu.Unlock()
	if cfg.Cross && v == "unsat" {
		other := solvers[2]
		if solver == "cvc5" {
			other = solvers[0]
		}
		v2, _ := runSolver(ctx, other.bin, other.args(sec), file, time.Duration(sec)*time.Second)
		stats.mu.Lock()
		if v2 == "unsat" {
			stats.crossOK++
		} else if v2 == "sat" {
			stats.crossBad = append(stats.crossBad, file)
		}
		stats.mu.Unlock()
	}
}

// solveAll decides every query of the obligations, in parallel.
func solveAll(cfg *SolverCfg, obls []*Obligation, stats *solverStats) {
	type job struct {
		o *Obligation
		q *Query
		f string
	}
	var jobs []job
	os.MkdirAll(cfg.WorkDir, 0o755)
	n := 0
	for _, o := range obls {
		for _, q := range o.Queries {
			n++
			f := filepath.Join(cfg.WorkDir, fmt.Sprintf("q%05d.smt2", n))
			jobs = append(jobs, job{o, q, f})
		}
	}
	ch := make(chan job)
	var wg sync.WaitGroup
	par := cfg.Parallel
	if par <= 0 {
		par = 16
	}
	for i := 0; i < par; i++ {
		wg.Add(1)
		go func() {
			defer wg.Done()
			for j := range ch {
				if err := os.WriteFile(j.f, []byte(j.q.SMT), 0o644); err != nil {
					j.q.Verdict = "error: " + err.Error()
					continue
				}
				var ckey string
				if cfg.CacheDir != "" {
					sum := sha256.Sum256([]byte(j.q.SMT))
					ckey = filepath.Join(cfg.CacheDir, hex.EncodeToString(sum[:]))
					if b, err := os.ReadFile(ckey); err == nil {
						v := strings.TrimSpace(string(b))
						if v == "unsat" || (v == "sat" && j.o.ExpectSat) {
							j.q.Verdict, j.q.Solver = v, "cache"
							os.Remove(j.f)
							continue
						}
					}
				}
				solveQuery(cfg, j.q, j.f, stats)
				if ckey != "" && (j.q.Verdict == "unsat" || (j.q.Verdict == "sat" && j.o.ExpectSat)) {
					os.WriteFile(ckey, []byte(j.q.Verdict), 0o644)
				}
				if j.q.Verdict == "sat" && !j.o.ExpectSat && len(j.q.Values) > 0 {
					j.q.Model = getValues(j.f, j.q)
				}
				if !cfg.KeepFiles && (j.q.Verdict == "unsat" || j.o.ExpectSat) {
					os.Remove(j.f)
				}
			}
		}()
	}
	for _, j := range jobs {
		ch <- j
	}
	close(ch)
	wg.Wait()
	// patient pass: a query that ended without an answer (timeout / unknown / solver error) is not
	// evidence of anything - on a loaded machine valid goals run out of wall-clock budget. Such
	// queries (a bounded number of them) are re-run two at a time, when this process no longer
	// competes with itself, with a much larger budget. Only what is still undecided then fails.
	var undecided []job
	for _, j := range jobs {
		if j.q.Cover || j.o.ExpectSat || j.q.Verdict == "sat" || j.q.Verdict == "unsat" {
			continue
		}
		// only answers that look time-limited: a solver that gives up quickly ("unknown" after a
		// fraction of the budget) would give up again
		if j.q.Secs < 0.5*cfg.Timeout.Seconds() {
			continue
		}
		undecided = append(undecided, j)
	}
	if !cfg.NoPatient && len(undecided) > 0 && len(undecided) <= patientMax {
		pcfg := *cfg
		pcfg.Timeout = cfg.Timeout * patientFactor
		pcfg.Cross = false
		sem := make(chan struct{}, 2)
		var pwg sync.WaitGroup
		for _, j := range undecided {
			j := j
			pwg.Add(1)
			sem <- struct{}{}
			go func() {
				defer pwg.Done()
				defer func() { <-sem }()
				if _, err := os.Stat(j.f); err != nil {
					if err := os.WriteFile(j.f, []byte(j.q.SMT), 0o644); err != nil {
						return
					}
				}
				prev := j.q.Verdict
				solveQuery(&pcfg, j.q, j.f, stats)
				j.q.Solver += " (patient retry after " + prev + ")"
				if j.q.Verdict == "sat" && len(j.q.Values) > 0 {
					j.q.Model = getValues(j.f, j.q)
				}
			}()
		}
		pwg.Wait()
	}
	for _, o := range obls {
		decide(o)
	}
}

// patient pass limits: at most patientMax undecided queries are retried, each with
// patientFactor times the normal per-query budget
const (
	patientMax    = 8
	patientFactor = 6
)

func decide(o *Obligation) {
	if o.Static {
		o.Discharged = o.StaticOK
		return
	}
	if o.ExpectSat {
		// call-site covers come in pairs (before / after the callee's posts): the obligation fails
		// only if the site is reachable before and on no path after
		paired := false
		for _, q := range o.Queries {
			if q.Before {
				paired = true
			}
		}
		if paired {
			reachable := false
			for _, q := range o.Queries {
				if !q.Before && q.Verdict == "sat" {
					o.Discharged = true
					return
				}
				if q.Before && q.Verdict == "sat" {
					reachable = true
				}
			}
			if !reachable {
				o.Discharged = true
				o.Detail = "call site not reachable in this context"
				return
			}
			for _, q := range o.Queries {
				if !q.Before && q.Verdict != "unsat" {
					o.Discharged = true
					o.Detail = "cover undecided (" + q.Verdict + ")"
					return
				}
			}
			o.Discharged = false
			for _, q := range o.Queries {
				if !q.Before {
					o.Failed = q
					break
				}
			}
			return
		}
		// at least one reachable witness; "unknown" counts as not refuted only if no sat was found
		for _, q := range o.Queries {
			if q.Verdict == "sat" {
				o.Discharged = true
				return
			}
		}
		for _, q := range o.Queries {
			if q.Verdict != "unsat" {
				// could not decide: do not fail a cover on a solver limit
				o.Discharged = true
				o.Detail = "cover undecided (" + q.Verdict + ")"
				return
			}
		}
		o.Discharged = false
		if len(o.Queries) > 0 {
			o.Failed = o.Queries[0]
		}
		return
	}
	o.Discharged = true
	for _, q := range o.Queries {
		if q.Verdict != "unsat" {
			o.Discharged = false
			if o.Failed == nil || (q.Verdict == "sat" && o.Failed.Verdict != "sat") {
				o.Failed = q
			}
		}
	}
}

// getValues re-runs a sat query asking for the values of the input terms.
func getValues(file string, q *Query) string {
	var b strings.Builder
	b.WriteString(strings.TrimSuffix(q.SMT, "(check-sat)\n"))
	b.WriteString("(check-sat)\n(get-value (")
	for _, v := range q.Values {
		b.WriteString(v)
		b.WriteString(" ")
	}
	b.WriteString("))\n")
	f := strings.TrimSuffix(file, ".smt2") + ".model.smt2"
	if err := os.WriteFile(f, []byte(b.String()), 0o644); err != nil {
		return ""
	}
	defer os.Remove(f)
	ctx, cancel := context.WithTimeout(context.Background(), 20*time.Second)
	defer cancel()
	out, _ := exec.CommandContext(ctx, "z3-new", "-T:15", f).CombinedOutput()
	s := string(out)
	if !strings.HasPrefix(strings.TrimSpace(s), "sat") {
		out, _ = exec.CommandContext(ctx, "z3", "-T:15", f).CombinedOutput()
		s = string(out)
	}
	return s
}
