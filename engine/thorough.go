package main

// Thorough-mode extras (must-fail corpus) and obligations decided by scanning
// the SSA: field protection clauses.

import (
	"fmt"
	"go/types"
	"sort"
	"strings"

	"golang.org/x/tools/go/ssa"
)

type thoroughResult struct {
	cov    map[string]interface{}
	fail   bool
	msg    string
	replay string
}

func thoroughExtras(ld *Loaded, id string, verbose bool) thoroughResult {
	return runSelftest(ld, id, verbose)
}

// staticScans: "field T.f immutable <ctor>[,<ctor>]" - every store to the field lies in
// one of the named constructor functions (or their anonymous functions).
// planFuncs: keys of the functions in the current property's plan (set by the check driver): a
// static clause about one of these functions, or about the receiver type of one of them, belongs to
// the property as well, whatever its own tags say.
var planFuncs map[string]bool

func (ld *Loaded) inPlan(fd *FieldDecl) bool {
	if len(planFuncs) == 0 {
		return false
	}
	switch fd.Kind {
	case "nouse", "order", "cellfresh", "lockwrapper":
		return planFuncs[qualifyFuncName(fd.Type, fd.Pkg)]
	case "promoted", "closure":
		return false
	}
	// field / method-set clauses of type T: some method of T (or *T) is in the plan
	p1 := "(*" + fd.Pkg + "." + fd.Type + ")."
	p2 := "(" + fd.Pkg + "." + fd.Type + ")."
	for k := range planFuncs {
		if strings.HasPrefix(k, p1) || strings.HasPrefix(k, p2) {
			return true
		}
	}
	return false
}

func (ld *Loaded) staticScans(id string) []*FuncResult {
	var out []*FuncResult
	for _, fd := range ld.cs.Fields {
		has := ld.inPlan(fd)
		for _, p := range fd.Props {
			if p == id {
				has = true
			}
		}
		if has && (fd.Kind == "atomic" || fd.Kind == "guarded_by" || fd.Kind == "published_by" || fd.Kind == "owned_by" || fd.Kind == "syncvalue" || fd.Kind == "elemsync" || fd.Kind == "storesconst" || fd.Kind == "mapvalues" || fd.Kind == "syncmapvalues") {
			out = append(out, ld.protectScan(fd))
			if fd.Kind != "atomic" {
				continue
			}
			continue
		}
		if has && fd.Kind == "lockwrapper" {
			out = append(out, ld.lockWrapperScan(fd))
			continue
		}
		if has && fd.Kind == "cellfresh" {
			out = append(out, ld.cellFreshScan(fd))
			continue
		}
		if (has || len(planFuncs) > 0 && ld.pkgInPlan(fd.Pkg)) && fd.Kind == "globals" {
			out = append(out, ld.globalsScan(fd))
			continue
		}
		if (has || len(planFuncs) > 0 && ld.pkgInPlan(fd.Pkg)) && fd.Kind == "typescovered" {
			out = append(out, ld.typesCoveredScan(fd))
			continue
		}
		if has && fd.Kind == "methods" {
			out = append(out, ld.methodsScan(fd))
			continue
		}
		if has && fd.Kind == "nouse" {
			out = append(out, ld.nouseScan(fd))
			continue
		}
		if has && fd.Kind == "order" {
			out = append(out, ld.orderScan(fd))
			continue
		}
		if has && fd.Kind == "constructed_by" {
			out = append(out, ld.constructedByScan(fd))
			continue
		}
		if has && fd.Kind == "promoted" {
			out = append(out, ld.promotedScan(fd))
			continue
		}
		if !has || fd.Kind != "immutable" {
			continue
		}
		out = append(out, ld.immutableScan(fd))
	}
	out = append(out, ld.coverageScans(id)...)
	return out
}

// immutableScan: the field is stored only inside the listed constructors and its address does not
// escape elsewhere.
func (ld *Loaded) immutableScan(fd *FieldDecl) *FuncResult {
	ctors := map[string]bool{}
	for _, c := range strings.Split(fd.Arg, ",") {
		if c = strings.TrimSpace(c); c != "" {
			ctors[qualifyFuncName(c, fd.Pkg)] = true
		}
	}
	tname := fd.Pkg + "." + fd.Type
	var bad []string
	nStores := 0
	var keys []string
	for k := range ld.fnByKey {
		keys = append(keys, k)
	}
	sort.Strings(keys)
	for _, k := range keys {
		for _, fn := range ld.fnByKey[k] {
			root := fn
			for root.Parent() != nil {
				root = root.Parent()
			}
			for _, b := range fn.Blocks {
				for _, in := range b.Instrs {
					st, ok := in.(*ssa.Store)
					if !ok {
						continue
					}
					fa, ok := st.Addr.(*ssa.FieldAddr)
					if !ok {
						continue
					}
					stt := deref(fa.X.Type())
					if namedStructKey(stt) != tname {
						continue
					}
					if stt.Underlying().(*types.Struct).Field(fa.Field).Name() != fd.Field {
						continue
					}
					nStores++
					if !ctors[fnKey(root)] {
						bad = append(bad, fmt.Sprintf("%s: %s", fn, in))
					}
				}
			}
		}
	}
	for _, a := range ld.accessesOf(tname, fd.Field) {
		if a.other && !ctors[fnKey(rootFn(a.fn))] {
			bad = append(bad, fmt.Sprintf("address of the field escapes in %s: %s", a.fn.RelString(typesPkgOf(a.fn)), a.in))
		}
	}
	o := &Obligation{Name: shortStem(fd.Pkg, fd.Type) + "#frame:" + fd.Field + ".immutable", Kind: "frame", Static: true, StaticOK: len(bad) == 0, Props: fd.Props}
	o.Detail = fmt.Sprintf("field %s.%s is stored only in %s (%d stores found)", fd.Type, fd.Field, fd.Arg, nStores)
	if len(bad) > 0 {
		o.Detail = fmt.Sprintf("field %s.%s declared immutable is stored outside its constructors: %s", fd.Type, fd.Field, strings.Join(bad, "; "))
	}
	return &FuncResult{Key: "static:" + o.Name, Obls: []*Obligation{o}}
}

// promotedScan: the listed methods of *T are promoted from the named embedded field
// (as go/types resolves them), i.e. the type does not define or shadow them.
func (ld *Loaded) promotedScan(fd *FieldDecl) *FuncResult {
	o := &Obligation{Name: shortStem(fd.Pkg, fd.Type) + "#frame:promoted." + fd.Field, Kind: "frame", Static: true, Props: fd.Props}
	var tp *types.Package
	for _, p := range ld.prog.AllPackages() {
		if p.Pkg.Path() == fd.Pkg {
			tp = p.Pkg
		}
	}
	var bad []string
	if tp == nil || tp.Scope().Lookup(fd.Type) == nil {
		bad = append(bad, "type "+fd.Type+" not found")
	} else {
		t := types.NewPointer(tp.Scope().Lookup(fd.Type).Type())
		ms := types.NewMethodSet(t)
		stt, _ := tp.Scope().Lookup(fd.Type).Type().Underlying().(*types.Struct)
		for _, m := range strings.Fields(fd.Arg) {
			sel := ms.Lookup(tp, m)
			if sel == nil {
				bad = append(bad, m+": no such method")
				continue
			}
			idx := sel.Index()
			if len(idx) < 2 || stt == nil || stt.Field(idx[0]).Name() != fd.Field {
				bad = append(bad, m+": not promoted from "+fd.Field)
			}
		}
	}
	o.StaticOK = len(bad) == 0
	o.Detail = fmt.Sprintf("methods %s of *%s are promoted from the embedded field %s", fd.Arg, fd.Type, fd.Field)
	if len(bad) > 0 {
		o.Detail += ": FAILS: " + strings.Join(bad, "; ")
	}
	return &FuncResult{Key: "static:" + o.Name, Obls: []*Obligation{o}}
}

// constructedByScan: objects of struct type T are allocated only in the named constructors.
func (ld *Loaded) constructedByScan(fd *FieldDecl) *FuncResult {
	o := &Obligation{Name: shortStem(fd.Pkg, fd.Type) + "#frame:constructed_by", Kind: "frame", Static: true, Props: fd.Props}
	ctors := map[string]bool{}
	for _, c := range strings.Split(fd.Arg, ",") {
		if c = strings.TrimSpace(c); c != "" {
			ctors[qualifyFuncName(c, fd.Pkg)] = true
		}
	}
	tname := fd.Pkg + "." + fd.Type
	var bad []string
	n := 0
	var keys []string
	for k := range ld.fnByKey {
		keys = append(keys, k)
	}
	sort.Strings(keys)
	for _, k := range keys {
		for _, fn := range ld.fnByKey[k] {
			root := fn
			for root.Parent() != nil {
				root = root.Parent()
			}
			for _, b := range fn.Blocks {
				for _, in := range b.Instrs {
					a, ok := in.(*ssa.Alloc)
					if !ok {
						continue
					}
					if namedStructKey(deref(a.Type())) != tname {
						continue
					}
					n++
					if !ctors[fnKey(root)] {
						bad = append(bad, fn.String())
					}
				}
			}
		}
	}
	o.StaticOK = len(bad) == 0
	o.Detail = fmt.Sprintf("%s objects are allocated only in %s (%d allocation sites)", fd.Type, fd.Arg, n)
	if len(bad) > 0 {
		o.Detail += "; FAILS: also allocated in " + strings.Join(bad, ", ")
	}
	return &FuncResult{Key: "static:" + o.Name, Obls: []*Obligation{o}}
}

// callName: how a call site is named in 'order' clauses: the callee's key suffix, an interface
// method "Iface.Method", or an atomic point name ("store c.running").
// helperHasContract is set by the loader: does a repository function have its own contract?
var helperHasContract = func(fn *ssa.Function) bool { return true }

func callNames(in ssa.Instruction) []string {
	return callNamesDepth(in, 0)
}

func callNamesDepth(in ssa.Instruction, depth int) []string {
	c, ok := in.(ssa.CallInstruction)
	if !ok {
		return nil
	}
	cc := c.Common()
	// a call of an uncontracted repository helper stands for the calls the helper makes
	if sc := cc.StaticCallee(); sc != nil && depth < 3 && sc.Blocks != nil && !helperHasContract(sc) {
		if tp := typesPkgOf(sc); tp != nil && strings.HasPrefix(tp.Path(), "github.com/go-netty/") {
			var inner []string
			for _, b := range sc.Blocks {
				for _, in2 := range b.Instrs {
					inner = append(inner, callNamesDepth(in2, depth+1)...)
				}
			}
			return append(inner, fnKey(sc), sc.Name())
		}
	}
	if cc.IsInvoke() {
		k := strings.TrimPrefix(ifaceMethodKey(cc.Method), "iface:")
		short := k
		if i := strings.LastIndex(k, "/"); i >= 0 {
			short = k[i+1:]
		}
		if j := strings.Index(short, "."); j >= 0 {
			short = short[j+1:]
		}
		return []string{k, short}
	}
	if sc := cc.StaticCallee(); sc != nil {
		k := fnKey(sc)
		names := []string{k, sc.Name()}
		if sc.Pkg != nil {
			names = append(names, sc.Pkg.Pkg.Name()+"."+sc.Name())
		}
		switch k {
		case "sync/atomic.StoreInt32":
			names = append(names, "store "+describe(cc.Args[0]))
		case "sync/atomic.LoadInt32":
			names = append(names, "load "+describe(cc.Args[0]))
		case "sync/atomic.CompareAndSwapInt32":
			names = append(names, "cas "+describe(cc.Args[0]))
		}
		return names
	}
	return []string{describe(cc.Value)}
}

func (ld *Loaded) orderScan(fd *FieldDecl) *FuncResult {
	o := &Obligation{Name: shortStem(fd.Pkg, fd.Type) + "#order:" + sanitize(fd.Field) + "_before_" + sanitize(fd.Arg), Kind: "frame", Static: true, Props: fd.Props}
	key := qualifyFuncName(fd.Type, fd.Pkg)
	fns := ld.fnByKey[key]
	if len(fns) == 0 {
		o.Detail = "function " + key + " not found"
		return &FuncResult{Key: "static:" + o.Name, Obls: []*Obligation{o}}
	}
	match := func(in ssa.Instruction, want string) bool {
		for _, n := range callNames(in) {
			if n == want || strings.HasSuffix(n, "."+want) || strings.HasSuffix(n, "/"+want) {
				return true
			}
		}
		return false
	}
	var bad []string
	nB := 0
	for _, fn := range fns {
		type site struct {
			b   *ssa.BasicBlock
			idx int
		}
		var as []site
		for _, b := range fn.Blocks {
			for i, in := range b.Instrs {
				if match(in, fd.Field) {
					as = append(as, site{b, i})
				}
			}
		}
		for _, b := range fn.Blocks {
			for i, in := range b.Instrs {
				if !match(in, fd.Arg) {
					continue
				}
				nB++
				ok := false
				for _, a := range as {
					if (a.b == b && a.idx < i) || (a.b != b && a.b.Dominates(b)) {
						ok = true
					}
				}
				if !ok {
					bad = append(bad, in.String())
				}
			}
		}
	}
	o.StaticOK = len(bad) == 0 && nB > 0
	o.Detail = fmt.Sprintf("in %s every call of %s (%d sites) is dominated by a call of %s", fd.Type, fd.Arg, nB, fd.Field)
	if len(bad) > 0 {
		o.Detail += "; FAILS at: " + strings.Join(bad, "; ")
	}
	if nB == 0 {
		o.Detail += "; FAILS: no call of " + fd.Arg + " found"
	}
	return &FuncResult{Key: "static:" + o.Name, Obls: []*Obligation{o}}
}

// nouseScan: ownership hand-over. The slice passed as argument i to the named callee (and every
// slice it was cut from / that is cut from it) is not used by any instruction the call dominates.
func (ld *Loaded) nouseScan(fd *FieldDecl) *FuncResult {
	o := &Obligation{Name: shortStem(fd.Pkg, fd.Type) + "#alias:relinquished_after_" + sanitize(fd.Field), Kind: "frame", Static: true, Props: fd.Props}
	key := qualifyFuncName(fd.Type, fd.Pkg)
	var argi int
	fmt.Sscanf(fd.Arg, "%d", &argi)
	var bad []string
	n := 0
	for _, fn := range ld.fnByKey[key] {
		for _, b := range fn.Blocks {
			for i, in := range b.Instrs {
				call, ok := in.(*ssa.Call)
				if !ok {
					continue
				}
				hit := false
				for _, nme := range callNames(call) {
					if nme == fd.Field || strings.HasSuffix(nme, "."+fd.Field) {
						hit = true
					}
				}
				if !hit || argi >= len(call.Call.Args) {
					continue
				}
				n++
				// alias set: walk backwards through slicing / phis / loads, then forwards through slicing
				alias := map[ssa.Value]bool{}
				cells := map[*ssa.Alloc]bool{}
				var back func(v ssa.Value, d int)
				back = func(v ssa.Value, d int) {
					if v == nil || alias[v] || d > 6 {
						return
					}
					alias[v] = true
					switch vv := v.(type) {
					case *ssa.Slice:
						back(vv.X, d+1)
					case *ssa.Phi:
						for _, e := range vv.Edges {
							back(e, d+1)
						}
					case *ssa.UnOp:
						// a load from a local variable cell: the variable holds the buffer
						if a, ok := vv.X.(*ssa.Alloc); ok {
							cells[a] = true
						}
					}
				}
				back(call.Call.Args[argi], 0)
				// every load of such a variable that is REACHABLE from the call before the variable
				// receives a different buffer yields the same buffer (reachability, not dominance:
				// a use after the join of the branch that made the call counts)
				reach := map[ssa.Instruction]bool{}
				seenB := map[*ssa.BasicBlock]bool{}
				var walk func(bb *ssa.BasicBlock, from int)
				walk = func(bb *ssa.BasicBlock, from int) {
					for j := from; j < len(bb.Instrs); j++ {
						in2 := bb.Instrs[j]
						reach[in2] = true
						if st, ok := in2.(*ssa.Store); ok {
							if a, ok := st.Addr.(*ssa.Alloc); ok && cells[a] && !alias[st.Val] {
								if _, fromAlias := st.Val.(*ssa.Slice); !fromAlias {
									return // the variable holds another buffer from here on (on this path)
								}
							}
						}
						if u, ok := in2.(*ssa.UnOp); ok {
							if a, ok := u.X.(*ssa.Alloc); ok && cells[a] {
								alias[u] = true
							}
						}
					}
					for _, sc := range bb.Succs {
						if !seenB[sc] {
							seenB[sc] = true
							walk(sc, 0)
						}
					}
				}
				walk(b, i+1)
				changed := true
				for changed {
					changed = false
					for _, b2 := range fn.Blocks {
						for _, in2 := range b2.Instrs {
							if sl, ok := in2.(*ssa.Slice); ok && alias[sl.X] && !alias[sl] {
								alias[sl] = true
								changed = true
							}
						}
					}
				}
				for _, b2 := range fn.Blocks {
					for j, in2 := range b2.Instrs {
						if in2 == in {
							continue
						}
						_ = j
						if !reach[in2] {
							continue
						}
						if _, isDbg := in2.(*ssa.DebugRef); isDbg {
							continue
						}
						if v2, ok := in2.(ssa.Value); ok && alias[v2] {
							if _, isSl := in2.(*ssa.Slice); !isSl {
								continue // the aliasing load itself; its users are checked
							}
						}
						for _, op := range in2.Operands(nil) {
							if *op != nil && alias[*op] {
								bad = append(bad, in2.String())
							}
						}
					}
				}
			}
		}
	}
	o.StaticOK = len(bad) == 0 && n > 0
	o.Detail = fmt.Sprintf("in %s the buffer passed as argument %d to %s is not used after the call (%d call sites)", fd.Type, argi, fd.Field, n)
	if len(bad) > 0 {
		o.Detail += "; FAILS: used by " + strings.Join(bad, "; ")
	}
	if n == 0 {
		o.Detail += "; FAILS: no such call"
	}
	return &FuncResult{Key: "static:" + o.Name, Obls: []*Obligation{o}}
}

// cellFreshScan: "cellfresh f: after "callee" argument i" - the argument is the address of a local
// variable cell handed over to the callee (which keeps the pointer, e.g. a pool); the cell must
// not be stored to again while it is the same incarnation: no store to it is reachable from the
// call without passing through the allocation of the variable again.
func (ld *Loaded) cellFreshScan(fd *FieldDecl) *FuncResult {
	o := &Obligation{Name: shortStem(fd.Pkg, fd.Type) + "#alias:cell_not_reused_after_" + sanitize(fd.Field), Kind: "frame", Static: true, Props: fd.Props}
	key := qualifyFuncName(fd.Type, fd.Pkg)
	var argi int
	fmt.Sscanf(fd.Arg, "%d", &argi)
	var bad []string
	n := 0
	for _, fn := range ld.withHelpers(ld.fnByKey[key]) {
		for _, b := range fn.Blocks {
			for i, in := range b.Instrs {
				call, ok := in.(*ssa.Call)
				if !ok {
					continue
				}
				hit := false
				for _, nme := range callNamesDepth(call, 99) {
					if nme == fd.Field || strings.HasSuffix(nme, "."+fd.Field) {
						hit = true
					}
				}
				if !hit || argi >= len(call.Call.Args) {
					continue
				}
				n++
				cell, ok := call.Call.Args[argi].(*ssa.Alloc)
				if !ok {
					bad = append(bad, "argument is not the address of a local variable: "+call.String())
					continue
				}
				// instruction-level reachability from the call, cut at the allocation
				seen := map[*ssa.BasicBlock]bool{}
				var walk func(bb *ssa.BasicBlock, from int)
				walk = func(bb *ssa.BasicBlock, from int) {
					for j := from; j < len(bb.Instrs); j++ {
						if bb.Instrs[j] == ssa.Instruction(cell) {
							return // a new incarnation of the variable
						}
						if st, ok := bb.Instrs[j].(*ssa.Store); ok && st.Addr == ssa.Value(cell) {
							bad = append(bad, fmt.Sprintf("the variable handed to %s is written again: %s", fd.Field, st))
							return
						}
					}
					for _, s := range bb.Succs {
						if !seen[s] {
							seen[s] = true
							walk(s, 0)
						}
					}
				}
				walk(b, i+1)
			}
		}
	}
	if n == 0 {
		bad = append(bad, "no call of "+fd.Field+" found")
	}
	sort.Strings(bad)
	o.StaticOK = len(bad) == 0
	o.Detail = fmt.Sprintf("in %s the variable whose address is argument %d of %s is not written again after the call (%d sites)", fd.Type, argi, fd.Field, n)
	if len(bad) > 0 {
		o.Detail += "; FAILS: " + strings.Join(bad, " | ")
	}
	return &FuncResult{Key: "static:" + o.Name, Obls: []*Obligation{o}}
}

// methodsScan: "methods T: M1 M2" - the method set of *T (declared methods, not promoted ones) is
// exactly the listed one: a method added later (which consumers may reach through an interface
// assertion) is reported until it is put under contract and listed.
func (ld *Loaded) methodsScan(fd *FieldDecl) *FuncResult {
	o := &Obligation{Name: shortStem(fd.Pkg, fd.Type) + "#frame:methods", Kind: "frame", Static: true, Props: fd.Props}
	want := map[string]bool{}
	for _, m := range strings.Fields(fd.Arg) {
		want[m] = true
	}
	var bad, extra []string
	found := false
	for _, p := range ld.prog.AllPackages() {
		if p.Pkg.Path() != fd.Pkg {
			continue
		}
		obj := p.Pkg.Scope().Lookup(fd.Type)
		if obj == nil {
			continue
		}
		named, ok := obj.Type().(*types.Named)
		if !ok {
			continue
		}
		found = true
		have := map[string]bool{}
		for i := 0; i < named.NumMethods(); i++ {
			have[named.Method(i).Name()] = true
			if !want[named.Method(i).Name()] && named.Method(i).Exported() {
				// (an unexported method cannot be reached through an interface of another package and
				// is executed in place where it is called.) An exported method that is not listed has
				// no contract; it matters only if existing code can reach it: through an interface the
				// code dispatches on (type assertions and switches of the repository, the optional
				// interfaces library code asserts for), or by shadowing a promoted method.
				if why := ld.methodReachable(named, named.Method(i).Name()); why != "" {
					bad = append(bad, "method "+named.Method(i).Name()+" is not listed (no contract covers it) and "+why)
				} else {
					extra = append(extra, named.Method(i).Name())
				}
			}
		}
		for m := range want {
			if !have[m] {
				bad = append(bad, "listed method "+m+" does not exist")
			}
		}
		_ = have
	}
	if !found {
		bad = append(bad, "type not found")
	}
	sort.Strings(bad)
	o.StaticOK = len(bad) == 0
	o.Detail = fmt.Sprintf("the declared methods of %s are exactly: %s", fd.Type, fd.Arg)
	if len(extra) > 0 {
		o.Detail += "; further methods that no existing code can reach through an interface: " + strings.Join(extra, " ")
	}
	if len(bad) > 0 {
		o.Detail += "; FAILS: " + strings.Join(bad, " | ")
	}
	return &FuncResult{Key: "static:" + o.Name, Obls: []*Obligation{o}}
}

// withHelpers: the functions plus the repository helpers without a contract they call statically
// (what the VC generator executes in place).
func (ld *Loaded) withHelpers(fns []*ssa.Function) []*ssa.Function {
	seen := map[*ssa.Function]bool{}
	var out []*ssa.Function
	var add func(fn *ssa.Function, d int)
	add = func(fn *ssa.Function, d int) {
		if fn == nil || seen[fn] || d > 3 {
			return
		}
		seen[fn] = true
		out = append(out, fn)
		for _, b := range fn.Blocks {
			for _, in := range b.Instrs {
				if c, ok := in.(ssa.CallInstruction); ok {
					if sc := c.Common().StaticCallee(); sc != nil && sc.Blocks != nil && !helperHasContract(sc) {
						if tp := typesPkgOf(sc); tp != nil && strings.HasPrefix(tp.Path(), "github.com/go-netty/") {
							add(sc, d+1)
						}
					}
				}
			}
		}
	}
	for _, fn := range fns {
		add(fn, 0)
	}
	return out
}

func (ld *Loaded) pkgInPlan(pkg string) bool {
	for k := range planFuncs {
		if strings.Contains(k, pkg+".") {
			return true
		}
	}
	return false
}

// globalsScan: "globals immutable [except ...]" - every package-level variable of the package is
// written only by the package initialiser, and its address is not handed out elsewhere: there is
// no mutable global state that concurrent users of the package could share.
func (ld *Loaded) globalsScan(fd *FieldDecl) *FuncResult {
	short := fd.Pkg
	if i := strings.LastIndex(short, "/"); i >= 0 {
		short = short[i+1:]
	}
	if short == "go-netty" {
		short = "netty"
	}
	o := &Obligation{Name: short + ".globals#frame:immutable", Kind: "frame", Static: true, Props: fd.Props}
	except := map[string]bool{}
	f := strings.Fields(fd.Arg)
	for i, w := range f {
		if w == "except" {
			for _, g := range f[i+1:] {
				except[g] = true
			}
		}
	}
	var bad []string
	n := 0
	var keys []string
	for k := range ld.fnByKey {
		keys = append(keys, k)
	}
	sort.Strings(keys)
	for _, k := range keys {
		for _, fn := range ld.fnByKey[k] {
			tp := typesPkgOf(fn)
			if tp == nil || !strings.HasPrefix(tp.Path(), "github.com/go-netty/") {
				continue
			}
			isInit := fn.Name() == "init" || strings.HasPrefix(fn.Name(), "init#")
			for _, b := range fn.Blocks {
				for _, in := range b.Instrs {
					for _, op := range in.Operands(nil) {
						g, ok := (*op).(*ssa.Global)
						if !ok || g.Pkg == nil || g.Pkg.Pkg.Path() != fd.Pkg || except[g.Name()] || strings.HasPrefix(g.Name(), "init$") {
							continue
						}
						n++
						if u, isLoad := in.(*ssa.UnOp); isLoad && u.X == ssa.Value(g) {
							continue
						}
						if isInit && tp.Path() == fd.Pkg {
							continue
						}
						bad = append(bad, fmt.Sprintf("%s is written or its address taken in %s: %s", g.Name(), fn.RelString(tp), in))
					}
				}
			}
		}
	}
	sort.Strings(bad)
	o.StaticOK = len(bad) == 0
	o.Detail = fmt.Sprintf("package-level variables of %s are written only by the package initialiser (%d uses checked)", fd.Pkg, n)
	if len(bad) > 0 {
		o.Detail += "; FAILS: " + strings.Join(bad, " | ")
	}
	return &FuncResult{Key: "static:" + o.Name, Obls: []*Obligation{o}}
}

// exportedMethodSets lists the named (non-interface) types of a package that declare exported
// methods, with those methods.
func (ld *Loaded) exportedMethodSets(pkg string) map[string][]string {
	out := map[string][]string{}
	for _, p := range ld.prog.AllPackages() {
		if p.Pkg.Path() != pkg {
			continue
		}
		for _, n := range p.Pkg.Scope().Names() {
			tn, ok := p.Pkg.Scope().Lookup(n).(*types.TypeName)
			if !ok || tn.IsAlias() {
				continue
			}
			named, ok := tn.Type().(*types.Named)
			if !ok {
				continue
			}
			if _, isIface := named.Underlying().(*types.Interface); isIface {
				continue
			}
			for i := 0; i < named.NumMethods(); i++ {
				if named.Method(i).Exported() {
					out[n] = append(out[n], named.Method(i).Name())
				}
			}
			sort.Strings(out[n])
		}
	}
	return out
}

// typesCoveredScan: "types covered" - every named type of the package that declares exported
// methods has a "methods T: ..." clause (so a type added later, whose methods other code can
// reach through interfaces, is reported until its methods are under contract and listed).
func (ld *Loaded) typesCoveredScan(fd *FieldDecl) *FuncResult {
	short := fd.Pkg
	if i := strings.LastIndex(short, "/"); i >= 0 {
		short = short[i+1:]
	}
	if short == "go-netty" {
		short = "netty"
	}
	o := &Obligation{Name: short + ".types#frame:method_sets_declared", Kind: "frame", Static: true, Props: fd.Props}
	declared := map[string]bool{}
	for _, m := range ld.cs.Fields {
		if m.Kind == "methods" && m.Pkg == fd.Pkg {
			declared[m.Type] = true
		}
	}
	var bad []string
	sets := ld.exportedMethodSets(fd.Pkg)
	var names []string
	for n := range sets {
		names = append(names, n)
	}
	sort.Strings(names)
	for _, n := range names {
		if !declared[n] {
			// a type nobody declared matters only if its methods can be reached through an interface
			// existing code dispatches on
			var reach []string
			for _, p := range ld.prog.AllPackages() {
				if p.Pkg.Path() != fd.Pkg {
					continue
				}
				if named, ok := p.Pkg.Scope().Lookup(n).Type().(*types.Named); ok {
					for _, m := range sets[n] {
						if why := ld.methodReachable(named, m); why != "" {
							reach = append(reach, m+" "+why)
						}
					}
				}
			}
			// ... and only if code under contract creates values of the type (a new codec or helper
			// type with its own constructor that nothing existing calls is not reachable)
			if len(reach) > 0 {
				if where := ld.createdInContractedCode(fd.Pkg + "." + n); where != "" {
					bad = append(bad, fmt.Sprintf("type %s (methods %s) has no 'methods' clause: %s; values of it are created in %s", n, strings.Join(sets[n], " "), strings.Join(reach, "; "), where))
				}
			}
		}
	}
	o.StaticOK = len(bad) == 0
	o.Detail = fmt.Sprintf("every type of %s with exported methods (%d types) declares its method set", fd.Pkg, len(names))
	if len(bad) > 0 {
		o.Detail += "; FAILS: " + strings.Join(bad, " | ")
	}
	return &FuncResult{Key: "static:" + o.Name, Obls: []*Obligation{o}}
}

// dispatchInterfaces: the interfaces code decides on at run time - asserted types of the type
// assertions and type switches in the repository's non-test code, and the optional interfaces
// library code is known to assert for.
var dispatchCache []*types.Interface
var dispatchNames []string

func (ld *Loaded) dispatchInterfaces() ([]*types.Interface, []string) {
	if dispatchCache != nil {
		return dispatchCache, dispatchNames
	}
	seen := map[string]bool{}
	add := func(t types.Type, name string) {
		it, ok := t.Underlying().(*types.Interface)
		if !ok || it.NumMethods() == 0 || seen[name] {
			return
		}
		seen[name] = true
		dispatchCache = append(dispatchCache, it)
		dispatchNames = append(dispatchNames, name)
	}
	for _, fns := range ld.fnByKey {
		for _, fn := range fns {
			if tp := typesPkgOf(fn); tp == nil || !strings.HasPrefix(tp.Path(), "github.com/go-netty/") {
				continue
			}
			for _, b := range fn.Blocks {
				for _, in := range b.Instrs {
					if ta, ok := in.(*ssa.TypeAssert); ok {
						add(ta.AssertedType, types.TypeString(ta.AssertedType, nil))
					}
				}
			}
		}
	}
	// optional interfaces of the standard library (io.Copy, bufio, fmt's %w, errors.Is/As, net)
	for _, p := range ld.prog.AllPackages() {
		var names []string
		switch p.Pkg.Path() {
		case "io":
			names = []string{"WriterTo", "ReaderFrom", "ByteReader", "ByteScanner", "ByteWriter", "RuneReader", "StringWriter", "Closer", "Seeker", "ReaderAt", "WriterAt", "Reader", "Writer"}
		case "net":
			names = []string{"Error"}
		case "net/http":
			names = []string{"Flusher", "Hijacker"}
		case "fmt":
			names = []string{"Formatter"}
		}
		for _, n := range names {
			if o := p.Pkg.Scope().Lookup(n); o != nil {
				add(o.Type(), p.Pkg.Path()+"."+n)
			}
		}
	}
	mk := func(name string, params, results []*types.Var) {
		sig := types.NewSignatureType(nil, nil, nil, types.NewTuple(params...), types.NewTuple(results...), false)
		it := types.NewInterfaceType([]*types.Func{types.NewFunc(0, nil, name, sig)}, nil)
		it.Complete()
		add(it, "interface{ "+name+" }")
	}
	errT := types.Universe.Lookup("error").Type()
	boolT := types.Typ[types.Bool]
	v := func(t types.Type) *types.Var { return types.NewVar(0, nil, "", t) }
	add(errT, "error")
	mk("Unwrap", nil, []*types.Var{v(errT)})
	mk("Is", []*types.Var{v(errT)}, []*types.Var{v(boolT)})
	mk("As", []*types.Var{v(types.NewInterfaceType(nil, nil))}, []*types.Var{v(boolT)})
	mk("Timeout", nil, []*types.Var{v(boolT)})
	mk("Temporary", nil, []*types.Var{v(boolT)})
	mk("Flush", nil, []*types.Var{v(errT)})
	mk("Len", nil, []*types.Var{v(types.Typ[types.Int])})
	return dispatchCache, dispatchNames
}

// methodReachable: can existing code reach method m of the named type without naming it - because
// with m the type (or its pointer) satisfies an interface code dispatches on, or because m shadows
// a method promoted from an embedded field? "" if not.
func (ld *Loaded) methodReachable(named *types.Named, m string) string {
	its, names := ld.dispatchInterfaces()
	for i, it := range its {
		needs := false
		for k := 0; k < it.NumMethods(); k++ {
			if it.Method(k).Name() == m {
				needs = true
			}
		}
		if needs && (types.Implements(named, it) || types.Implements(types.NewPointer(named), it)) {
			return "the type satisfies " + names[i] + " with it, which code dispatches on"
		}
	}
	if st, ok := named.Underlying().(*types.Struct); ok {
		for i := 0; i < st.NumFields(); i++ {
			if !st.Field(i).Embedded() {
				continue
			}
			ms := types.NewMethodSet(st.Field(i).Type())
			if _, isPtr := st.Field(i).Type().(*types.Pointer); !isPtr {
				if _, isIface := st.Field(i).Type().Underlying().(*types.Interface); !isIface {
					ms = types.NewMethodSet(types.NewPointer(st.Field(i).Type()))
				}
			}
			for k := 0; k < ms.Len(); k++ {
				if ms.At(k).Obj().Name() == m {
					return "it shadows the method promoted from the embedded field " + st.Field(i).Name()
				}
			}
		}
	}
	return ""
}

// createdInContractedCode: a function under contract (or a helper without contract it calls) that
// allocates the named type or converts a value of it to an interface; "" if there is none.
func (ld *Loaded) createdInContractedCode(tname string) string {
	var fns []*ssa.Function
	var keys []string
	for k, c := range ld.cs.Funcs {
		if !c.Assumed && !c.Iface {
			keys = append(keys, k)
		}
	}
	sort.Strings(keys)
	for _, k := range keys {
		fns = append(fns, ld.fnByKey[k]...)
	}
	is := func(t types.Type) bool {
		if pt, ok := t.Underlying().(*types.Pointer); ok {
			t = pt.Elem()
		}
		return types.TypeString(t, nil) == tname
	}
	for _, fn := range ld.withHelpers(fns) {
		// the type's own methods and functions do not count as "existing code"
		if fn.Signature.Recv() != nil && is(fn.Signature.Recv().Type()) {
			continue
		}
		for _, b := range fn.Blocks {
			for _, in := range b.Instrs {
				switch v := in.(type) {
				case *ssa.Alloc:
					if is(v.Type()) {
						return fn.RelString(typesPkgOf(fn))
					}
				case *ssa.MakeInterface:
					if is(v.X.Type()) {
						return fn.RelString(typesPkgOf(fn))
					}
				case *ssa.ChangeType:
					if is(v.Type()) {
						return fn.RelString(typesPkgOf(fn))
					}
				case *ssa.Convert:
					if is(v.Type()) {
						return fn.RelString(typesPkgOf(fn))
					}
				}
			}
		}
	}
	return ""
}
