package main

// Thorough-mode extras (must-fail corpus) and obligations decided by scanning
// the SSA: field protection clauses.

import (
	"fmt"
	"go/types"
	"sort"
	"strings"

	"golang.org/x/tools/go/ssa"
)

type thoroughResult struct {
	cov    map[string]interface{}
	fail   bool
	msg    string
	replay string
}

func thoroughExtras(ld *Loaded, id string, verbose bool) thoroughResult {
	return runSelftest(ld, id, verbose)
}

// staticScans: "field T.f immutable <ctor>[,<ctor>]" - every store to the field lies in
// one of the named constructor functions (or their anonymous functions).
func (ld *Loaded) staticScans(id string) []*FuncResult {
	var out []*FuncResult
	for _, fd := range ld.cs.Fields {
		has := false
		for _, p := range fd.Props {
			if p == id {
				has = true
			}
		}
		if !has || fd.Kind != "immutable" {
			continue
		}
		ctors := map[string]bool{}
		for _, c := range strings.Split(fd.Arg, ",") {
			if c = strings.TrimSpace(c); c != "" {
				ctors[qualifyFuncName(c, fd.Pkg)] = true
			}
		}
		tname := fd.Pkg + "." + fd.Type
		var bad []string
		nStores := 0
		var keys []string
		for k := range ld.fnByKey {
			keys = append(keys, k)
		}
		sort.Strings(keys)
		for _, k := range keys {
			for _, fn := range ld.fnByKey[k] {
				root := fn
				for root.Parent() != nil {
					root = root.Parent()
				}
				for _, b := range fn.Blocks {
					for _, in := range b.Instrs {
						st, ok := in.(*ssa.Store)
						if !ok {
							continue
						}
						fa, ok := st.Addr.(*ssa.FieldAddr)
						if !ok {
							continue
						}
						stt := deref(fa.X.Type())
						if namedStructKey(stt) != tname {
							continue
						}
						if stt.Underlying().(*types.Struct).Field(fa.Field).Name() != fd.Field {
							continue
						}
						nStores++
						if !ctors[fnKey(root)] {
							bad = append(bad, fmt.Sprintf("%s: %s", fn, in))
						}
					}
				}
			}
		}
		o := &Obligation{Name: shortStem(fd.Pkg, fd.Type) + "#frame:" + fd.Field + ".immutable", Kind: "frame", Static: true, StaticOK: len(bad) == 0, Props: fd.Props}
		o.Detail = fmt.Sprintf("field %s.%s is stored only in %s (%d stores found)", fd.Type, fd.Field, fd.Arg, nStores)
		if len(bad) > 0 {
			o.Detail = fmt.Sprintf("field %s.%s declared immutable is stored outside its constructors: %s", fd.Type, fd.Field, strings.Join(bad, "; "))
		}
		out = append(out, &FuncResult{Key: "static:" + o.Name, Obls: []*Obligation{o}})
	}
	return out
}
