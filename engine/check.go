package main

// The property check driver: ./check <id> [--thorough]
//   - regenerates every obligation of the property from /repo's working tree
//   - discharges them, replays failures, consults known_findings.json
//   - writes evidence/<id>.json, prints KNOWN-FINDING / VIOLATION lines

import (
	"go/types"
	"encoding/json"
	"fmt"
	"os"
	"path/filepath"
	"regexp"
	"sort"
	"strconv"
	"strings"
	"time"
)

type KnownFinding struct {
	Property   string `json:"property"`
	Obligation string `json:"obligation"` // exact name or regexp (anchored)
	What       string `json:"what"`
	Status     string `json:"status"` // open | fixed
	Commit     string `json:"commit,omitempty"`
	Replay     string `json:"replay,omitempty"`
}

func loadKnown() []KnownFinding {
	var ks []KnownFinding
	b, err := os.ReadFile(filepath.Join(verifDir, "known_findings.json"))
	if err != nil {
		return nil
	}
	if err := json.Unmarshal(b, &ks); err != nil {
		fmt.Fprintln(os.Stderr, "known_findings.json:", err)
		os.Exit(2)
	}
	return ks
}

func matchKnown(ks []KnownFinding, prop, obl string) *KnownFinding {
	for i := range ks {
		k := &ks[i]
		if k.Property != prop || k.Status != "open" {
			continue
		}
		if k.Obligation == obl {
			return k
		}
		if re, err := regexp.Compile("^(?:" + k.Obligation + ")$"); err == nil && re.MatchString(obl) {
			return k
		}
	}
	return nil
}

type propertyPlan struct {
	funcs  []*Contract
	lemmas []*Lemma
}

// planFor selects the functions and lemmas whose obligations decide property id:
// everything tagged with it, plus (transitively) every non-assumed callee contract used.
func (ld *Loaded) planFor(id string) *propertyPlan {
	p := &propertyPlan{}
	for _, k := range ld.cs.Order {
		c := ld.cs.Funcs[k]
		if c.Assumed || c.Iface || (c.Inline && len(c.Ensures) == 0) || !c.hasProp(id) {
			continue
		}
		if len(ld.fnByKey[k]) == 0 {
			continue
		}
		p.funcs = append(p.funcs, c)
	}
	for _, l := range ld.cs.Lemmas {
		for _, pr := range l.Props {
			if pr == id {
				p.lemmas = append(p.lemmas, l)
			}
		}
	}
	return p
}

type evidence struct {
	PropertyID  string                 `json:"property_id"`
	Tier        string                 `json:"tier"`
	Seed        int                    `json:"seed"`
	Level       string                 `json:"level"`
	Coverage    map[string]interface{} `json:"coverage"`
	Assumptions []string               `json:"assumptions"`
	WallS       float64                `json:"wall_s"`
	Violations  int                    `json:"violations"`
}

var trustedBase = []string{
	"go/packages + go/types + go/ssa (golang.org/x/tools v0.29.0): the SSA form means what the Go compiler compiles",
	"this engine's semantics for the go/ssa instructions and its weakest-precondition/path generation (DESIGN.md 2.2, 2.6); evidence for it: must-fail corpus and semantics tests, not proof",
	"SMT solvers z3 5.1.0 (z3-new), z3 4.8.12, cvc5 1.0.3: 'unsat' answers",
	"type invariants assumed of every Go value: 0 <= len <= cap <= 2^48, off >= 0 (address-space bound), references allocated before use",
	"interface values compare by (dynamic type, reference): value equality of non-pointer dynamic types is not modelled",
}

func checkProperty(id string, thorough, verbose bool, replayFile string, timeout int, keep bool) int {
	t0 := time.Now()
	tier := "quick"
	if thorough {
		tier = "thorough"
	}
	seed := 0
	if s := os.Getenv("VERIF_SEED"); s != "" {
		seed, _ = strconv.Atoi(s)
	}
	if replayFile != "" {
		return replayOnly(id, replayFile)
	}
	ld, err := loadRepo(repoDir, filepath.Join(verifDir, "engine", "contracts"))
	if err != nil {
		fmt.Fprintln(os.Stderr, "engine error:", err)
		return 2
	}
	loadS := time.Since(t0).Seconds()
	plan := ld.planFor(id)
	if len(plan.funcs)+len(plan.lemmas) == 0 {
		fmt.Fprintf(os.Stderr, "engine error: no contract contributes to property %s\n", id)
		return 2
	}
	// generate, following used callee contracts transitively
	done := map[string]bool{}
	var results []*FuncResult
	queue := append([]*Contract(nil), plan.funcs...)
	primary := map[string]bool{}
	for _, c := range plan.funcs {
		primary[c.Key] = true
	}
	var assumedUsed []string
	seenAssumed := map[string]bool{}
	for len(queue) > 0 {
		c := queue[0]
		queue = queue[1:]
		if done[c.Key] {
			continue
		}
		done[c.Key] = true
		r := ld.verifyFunction(c)
		results = append(results, r)
		for _, u := range r.Used {
			uc := ld.cs.Funcs[u]
			if uc == nil {
				continue
			}
			if uc.Assumed || uc.Iface {
				if !seenAssumed[u] {
					seenAssumed[u] = true
					assumedUsed = append(assumedUsed, u)
					if uc.Iface {
						for _, ic := range ld.implContracts(u) {
							if !done[ic.Key] {
								queue = append(queue, ic)
							}
						}
					}
				}
				continue
			}
			if uc.Inline {
				continue
			}
			if !done[u] && len(ld.fnByKey[u]) > 0 {
				queue = append(queue, uc)
			}
		}
	}
	for _, l := range plan.lemmas {
		results = append(results, ld.verifyLemma(l))
	}
	planFuncs = done
	results = append(results, ld.staticScans(id)...)
	results = append(results, ld.missingObligations(id)...)
	genS := time.Since(t0).Seconds() - loadS
	var all []*Obligation
	engineErrs := 0
	for _, r := range results {
		if r.Err != "" {
			fmt.Printf("ENGINE-ERROR %s: %s\n", r.Key, r.Err)
			engineErrs++
		}
		for _, o := range r.Obls {
			if forProperty(o.Name, id) {
				all = append(all, o)
			}
		}
	}
	if timeout == 0 {
		timeout = 30
		if thorough {
			timeout = 90
		}
	}
	work := filepath.Join(verifDir, ".work", fmt.Sprintf("%s-%d", id, os.Getpid())) // two runs of one check must not share query files
	os.RemoveAll(work)
	defer func() {
		if !keep {
			os.RemoveAll(work)
		}
	}()
	cfg := &SolverCfg{WorkDir: work, Timeout: time.Duration(timeout) * time.Second, Parallel: 16, KeepFiles: true, Cross: thorough}
	stats := &solverStats{byBack: map[string]int{}}
	known := loadKnown()
	// obligations listed as open findings are expected to fail: no long solver race for them
	for _, o := range all {
		if matchKnown(known, id, o.Name) != nil {
			for _, q := range o.Queries {
				q.Cover = true
			}
		}
	}
	solveAll(cfg, all, stats)

	violations := 0
	knownHit := []string{}
	var samples []map[string]interface{}
	nObl, nDis, nCover, nTrivial, nKnownObl := 0, 0, 0, 0, 0
	var failed []*Obligation
	for _, o := range all {
		if o.ExpectSat {
			nCover++
			if !o.Discharged {
				failed = append(failed, o)
			}
			continue
		}
		if !o.Discharged && matchKnown(known, id, o.Name) != nil {
			// a listed finding: reported as KNOWN-FINDING, not counted among the claimed obligations
			failed = append(failed, o)
			nKnownObl++
			continue
		}
		nObl++
		if len(o.Queries) == 0 && !o.Static {
			nTrivial++
		}
		if o.Discharged {
			nDis++
		} else {
			failed = append(failed, o)
		}
	}
	sort.Slice(failed, func(i, j int) bool { return failed[i].Name < failed[j].Name })
	os.MkdirAll(filepath.Join(verifDir, "replays", id), 0o755)
	reported := map[string]bool{}
	for _, o := range failed {
		stem := familyName(o.Name)
		if kf := matchKnown(known, id, o.Name); kf != nil {
			if !reported[kf.Obligation] {
				reported[kf.Obligation] = true
				fmt.Printf("KNOWN-FINDING: property=%s %s [%s]\n", id, kf.What, o.Name)
				knownHit = append(knownHit, o.Name)
			}
			continue
		}
		if reported[stem] {
			continue
		}
		reported[stem] = true
		violations++
		rp := writeReplay(ld, id, o, work)
		suffix := ""
		if !rp.Confirmed {
			suffix = " no-failing-input-found"
		}
		fmt.Printf("VIOLATION property=%s replay=%s obligation=%s verdict=%s%s\n", id, rp.Path, o.Name, rp.Verdict, suffix)
		if verbose && o.Failed != nil {
			fmt.Printf("  %s\n  model: %s\n", o.Failed.Desc, strings.ReplaceAll(o.Failed.Model, "\n", " "))
		}
	}
	if engineErrs > 0 {
		// functions the engine could not process leave the property undecided: that is a failed check
		violations += engineErrs
		fmt.Printf("VIOLATION property=%s replay=%s engine could not generate obligations (see ENGINE-ERROR lines) no-failing-input-found\n", id, writeEngineErrReplay(id, results))
	}
	// evidence
	for _, o := range all {
		if len(samples) >= 40 {
			break
		}
		if o.ExpectSat {
			continue
		}
		var secs float64
		solver := ""
		for _, q := range o.Queries {
			secs += q.Secs
			solver = q.Solver
		}
		v := "unsat"
		if !o.Discharged {
			v = "failed"
		}
		if o.Static {
			solver = "static scan"
		}
		samples = append(samples, map[string]interface{}{"obligation": o.Name, "kind": o.Kind, "queries": len(o.Queries), "verdict": v, "solver": solver, "solver_s": round3(secs)})
	}
	var fns []string
	var deps []string
	for _, r := range results {
		if strings.HasPrefix(r.Key, "static:") {
			continue
		}
		if primary[r.Key] || strings.HasPrefix(r.Key, "lemma:") {
			fns = append(fns, r.Key)
		} else {
			deps = append(deps, r.Key)
		}
	}
	sort.Strings(assumedUsed)
	var assumptions []string
	for _, a := range assumedUsed {
		assumptions = append(assumptions, "assumed contract: "+a)
	}
	for _, r := range results {
		c := ld.cs.Funcs[r.Key]
		if c == nil {
			continue
		}
		for _, a := range c.Assumes {
			assumptions = append(assumptions, fmt.Sprintf("assumed at entry of %s: %s", c.Short, a.Src))
		}
		for _, a := range c.EnsuresA {
			assumptions = append(assumptions, fmt.Sprintf("assumed (not proved) of %s: %s", c.Short, a.Src))
		}
	}
	assumptions = append(assumptions, propertyAssumptions[id]...)
	ev := evidence{PropertyID: id, Tier: tier, Seed: seed, Level: "proof", Assumptions: assumptions, Violations: violations}
	ev.Coverage = map[string]interface{}{
		"obligations":               nObl,
		"discharged":                nDis,
		"checker_cmd":               fmt.Sprintf("bin/vcgen check %s%s  (go/ssa VC generation over %s; z3-new/z3/cvc5 race, %ds per query)", id, map[bool]string{true: " --thorough", false: ""}[thorough], repoDir, timeout),
		"trusted_base":              trustedBase,
		"samples":                   samples,
		"functions_under_contract":  fns,
		"dependencies_verified":     deps,
		"assumed_contracts":         assumedUsed,
		"by_backend":                stats.byBack,
		"solver_seconds":            round3(stats.secs),
		"smt_queries":               stats.queries,
		"covers_checked":            nCover,
		"syntactically_trivial":     nTrivial,
		"known_findings_hit":        knownHit,
		"known_finding_obligations": nKnownObl,
		"failed_obligations":        names(failed),
		"cross_checked_unsat":       stats.crossOK,
		"cross_check_disagreements": stats.crossBad,
		"load_s":                    round3(loadS),
		"generate_s":                round3(genS),
		"bounded":                   []string{},
		"renamed_functions":         append([]string{}, ld.renamed...),
	}
	if thorough {
		extra := thoroughExtras(ld, id, verbose)
		for k, v := range extra.cov {
			ev.Coverage[k] = v
		}
		if extra.fail {
			violations++
			fmt.Printf("VIOLATION property=%s replay=%s selftest: %s no-failing-input-found\n", id, extra.replay, extra.msg)
		}
	}
	if len(stats.crossBad) > 0 {
		violations++
		fmt.Printf("VIOLATION property=%s replay=%s solver disagreement no-failing-input-found\n", id, stats.crossBad[0])
	}
	ev.Violations = violations
	ev.WallS = round3(time.Since(t0).Seconds())
	os.MkdirAll(filepath.Join(verifDir, "evidence"), 0o755)
	b, _ := json.MarshalIndent(ev, "", " ")
	if err := os.WriteFile(filepath.Join(verifDir, "evidence", id+".json"), b, 0o644); err != nil {
		fmt.Fprintln(os.Stderr, err)
		return 2
	}
	fmt.Printf("property %s: %d obligations, %d discharged, %d known findings, %d violations, %d covers; %d queries, solver %.1fs, wall %.1fs\n",
		id, nObl, nDis, len(knownHit), violations, nCover, stats.queries, stats.secs, time.Since(t0).Seconds())
	if violations > 0 {
		return 1
	}
	return 0
}

func round3(f float64) float64 { return float64(int(f*1000+0.5)) / 1000 }

func names(os []*Obligation) []string {
	out := []string{}
	for _, o := range os {
		out = append(out, o.Name)
	}
	return out
}

var famRe = regexp.MustCompile(`\[k=\d+\]`)

// familyName merges the members of a case split into one reported obligation.
func familyName(n string) string { return famRe.ReplaceAllString(n, "") }

// propertyAssumptions: standing assumptions that are not contract clauses.
var propertyAssumptions = map[string][]string{}

func writeEngineErrReplay(id string, results []*FuncResult) string {
	p := filepath.Join(verifDir, "replays", id, "engine_error.json")
	var errs []string
	for _, r := range results {
		if r.Err != "" {
			errs = append(errs, r.Key+": "+r.Err)
		}
	}
	b, _ := json.MarshalIndent(map[string]interface{}{"property": id, "obligation": "engine", "errors": errs, "confirmed": false}, "", " ")
	os.WriteFile(p, b, 0o644)
	return p
}

// missingObligations: a contract that contributes to the property but names a
// function which no longer exists is a failed obligation (renames must be followed
// in the contract file; a deleted method silently changes what a type does).
func (ld *Loaded) missingObligations(id string) []*FuncResult {
	var out []*FuncResult
	for _, c := range ld.missing {
		if !c.hasProp(id) {
			continue
		}
		o := &Obligation{Name: c.Short + "#exists", Kind: "frame", Static: true, StaticOK: false, Props: c.Props,
			Detail: fmt.Sprintf("contract at %s:%d names function %s which does not exist in the current tree", c.File, c.Line, c.Key)}
		out = append(out, &FuncResult{Key: "static:" + o.Name, Obls: []*Obligation{o}})
	}
	return out
}

var propTagRe = regexp.MustCompile(`@(C\d+(?:_C\d+)*)`)

// forProperty: a clause label may end in @C11 or @C11_C06: the obligation then belongs to those
// properties only (other properties that verify the same function do not count it).
func forProperty(name, id string) bool {
	m := propTagRe.FindStringSubmatch(name)
	if m == nil {
		return true
	}
	for _, p := range strings.Split(m[1], "_") {
		if p == id {
			return true
		}
	}
	return false
}

// implContracts: the repository's own implementations (with a verified contract) of an
// interface method that a verified function calls through the interface. Their obligations belong
// to the property as well: the assumed interface contract is what callers rely on, the
// implementation's contract is what the framework itself provides behind it.
func (ld *Loaded) implContracts(ifaceKey string) []*Contract {
	name := strings.TrimPrefix(ifaceKey, "iface:")
	i := strings.LastIndex(name, ".")
	if i < 0 {
		return nil
	}
	meth := name[i+1:]
	rest := name[:i]
	j := strings.LastIndex(rest, ".")
	if j < 0 {
		return nil
	}
	pkgPath, ifaceName := rest[:j], rest[j+1:]
	var iface *types.Interface
	for _, p := range ld.prog.AllPackages() {
		if p.Pkg.Path() == pkgPath {
			if obj := p.Pkg.Scope().Lookup(ifaceName); obj != nil {
				iface, _ = obj.Type().Underlying().(*types.Interface)
			}
		}
	}
	if iface == nil {
		return nil
	}
	var out []*Contract
	for _, p := range ld.prog.AllPackages() {
		if !strings.HasPrefix(p.Pkg.Path(), "github.com/go-netty/") {
			continue
		}
		for _, n := range p.Pkg.Scope().Names() {
			tn, ok := p.Pkg.Scope().Lookup(n).(*types.TypeName)
			if !ok || tn.IsAlias() {
				continue
			}
			if _, isIface := tn.Type().Underlying().(*types.Interface); isIface {
				continue
			}
			for _, t := range []types.Type{types.NewPointer(tn.Type()), tn.Type()} {
				if !types.Implements(t, iface) {
					continue
				}
				var key string
				if _, isPtr := t.(*types.Pointer); isPtr {
					key = "(*" + p.Pkg.Path() + "." + n + ")." + meth
				} else {
					key = "(" + p.Pkg.Path() + "." + n + ")." + meth
				}
				if c := ld.cs.Funcs[key]; c != nil && !c.Assumed && !c.Iface && !c.Inline && len(ld.fnByKey[key]) > 0 {
					out = append(out, c)
				}
				break
			}
		}
	}
	return out
}
