package main

import (
	"fmt"
	"os"

	"golang.org/x/tools/go/packages"
	"golang.org/x/tools/go/ssa"
	"golang.org/x/tools/go/ssa/ssautil"
)

func main() {
	cfg := &packages.Config{Mode: packages.LoadAllSyntax, Dir: "/repo", BuildFlags: []string{"-tags=verif"}, Env: append(os.Environ(), "GOFLAGS=-mod=mod", "GOPROXY=off", "GOSUMDB=off", "GOTOOLCHAIN=local")}
	pkgs, err := packages.Load(cfg, "./...")
	if err != nil {
		panic(err)
	}
	prog, spkgs := ssautil.AllPackages(pkgs, ssa.InstantiateGenerics)
	prog.Build()
	for _, p := range spkgs {
		if p == nil {
			continue
		}
		fmt.Println(p.Pkg.Path())
	}
	for fn := range ssautil.AllFunctions(prog) {
		if fn.Pkg != nil && fn.Pkg.Pkg.Path() == "github.com/go-netty/go-netty/utils/pool" || (fn.Origin() != nil) {
			if fn.Origin() != nil && fn.Origin().Pkg.Pkg.Path() != "github.com/go-netty/go-netty/utils/pool" { continue }
			fmt.Println("FN", fn.String(), fn.Name(), fn.RelString(nil))
			if fn.Name() == "Get" || fn.Name()=="New$1" { fn.WriteTo(os.Stdout) }
		}
	}
}
