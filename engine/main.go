package main

import (
	"flag"
	"fmt"
	"os"
	"path/filepath"
	"sort"
	"strings"
	"time"
)

var (
	repoDir  = "/repo"
	verifDir = "/verif"
)

func usage() {
	fmt.Fprintln(os.Stderr, `usage:
  vcgen check <property-id> [--thorough] [--repo dir]
  vcgen func <substring-of-function-key> [--keep] [--repo dir]   debug: verify matching functions
  vcgen mutant <property-id> <patch.diff>                       verify the property on a scratch copy with the patch applied
  vcgen dump <substring>                                        debug: print SSA
  vcgen list                                                    contracts and their properties`)
	os.Exit(2)
}

func main() {
	if len(os.Args) < 2 {
		usage()
	}
	if d := os.Getenv("VERIF_DIR"); d != "" {
		verifDir = d
	}
	cmd := os.Args[1]
	fs := flag.NewFlagSet(cmd, flag.ExitOnError)
	thorough := fs.Bool("thorough", false, "thorough mode")
	keep := fs.Bool("keep", false, "keep query files")
	repo := fs.String("repo", "/repo", "repository")
	verbose := fs.Bool("v", false, "verbose")
	replay := fs.String("replay", "", "replay file")
	timeout := fs.Int("timeout", 0, "per-query solver timeout in seconds")
	var pos []string
	args := os.Args[2:]
	for len(args) > 0 {
		if strings.HasPrefix(args[0], "-") {
			fs.Parse(args)
			args = fs.Args()
			continue
		}
		pos = append(pos, args[0])
		args = args[1:]
	}
	repoDir = *repo
	switch cmd {
	case "check":
		if len(pos) != 1 {
			usage()
		}
		os.Exit(checkProperty(pos[0], *thorough, *verbose, *replay, *timeout, *keep))
	case "mutant":
		if len(pos) != 2 {
			usage()
		}
		failed, errs, err := runMutant(pos[0], pos[1])
		if err != nil {
			fmt.Fprintln(os.Stderr, "error:", err)
			os.Exit(2)
		}
		for _, e := range errs {
			fmt.Println("ENGINE-ERROR", e)
		}
		for _, f := range failed {
			fmt.Println("FAILED", f)
		}
		fmt.Printf("%d failed obligations\n", len(failed))
		if len(failed) > 0 || len(errs) > 0 {
			os.Exit(1)
		}
		os.Exit(0)
	case "replaytest":
		// run the replay registered for an obligation name against the current tree (no solver)
		o := &Obligation{Name: pos[0]}
		for _, rb := range replayBuilders {
			if rb.re.MatchString(o.Name) {
				pkg, src, ok := rb.fn(nil, o, map[string]string{}, "")
				if !ok {
					fmt.Println("builder needs a model")
					os.Exit(2)
				}
				work := filepath.Join(verifDir, ".work", "replaytest")
				defer os.RemoveAll(work)
				out, confirmed := runReplayTest(pkg, src, work)
				fmt.Println(out)
				fmt.Println("confirmed:", confirmed)
				os.RemoveAll(work)
				if confirmed {
					os.Exit(1)
				}
				os.Exit(0)
			}
		}
		fmt.Println("no replay builder for", o.Name)
		os.Exit(2)
	case "func":
		if len(pos) != 1 {
			usage()
		}
		os.Exit(debugFunc(pos[0], *keep, *verbose, *timeout))
	case "dump":
		ld, err := loadRepo(repoDir, filepath.Join(verifDir, "engine", "contracts"))
		if err != nil {
			fmt.Fprintln(os.Stderr, err)
			os.Exit(2)
		}
		var keys []string
		for k := range ld.fnByKey {
			if strings.Contains(k, pos[0]) {
				keys = append(keys, k)
			}
		}
		sort.Strings(keys)
		for _, k := range keys {
			for _, fn := range ld.fnByKey[k] {
				fmt.Println("KEY", k)
				fn.WriteTo(os.Stdout)
			}
		}
	case "params":
		// prints, for every verified contract, the current receiver/parameter/result names
		ld, err := loadRepo(repoDir, filepath.Join(verifDir, "engine", "contracts"))
		if err != nil {
			fmt.Fprintln(os.Stderr, err)
			os.Exit(2)
		}
		for _, k := range ld.cs.Order {
			c := ld.cs.Funcs[k]
			if c.Assumed || c.Iface || len(ld.fnByKey[k]) == 0 {
				continue
			}
			fn := ld.fnByKey[k][0]
			var ps, rs []string
			for _, p := range fn.Params {
				n := p.Name()
				if n == "" {
					n = "_"
				}
				ps = append(ps, n)
			}
			named := false
			res := fn.Signature.Results()
			for i := 0; i < res.Len(); i++ {
				n := res.At(i).Name()
				if n == "" {
					n = "_"
				} else {
					named = true
				}
				rs = append(rs, n)
			}
			if !named {
				rs = nil
			}
			fmt.Printf("%s\t%s\t%d\t%s\t%s\t%s\n", c.File, k, c.Line, strings.Join(ps, " "), strings.Join(rs, " "), strings.Join(ld.localsOf(fn), " "))
		}
	case "methods":
		// prints the methods clauses for every type of the repository with exported methods
		ld, err := loadRepo(repoDir, filepath.Join(verifDir, "engine", "contracts"))
		if err != nil {
			fmt.Fprintln(os.Stderr, err)
			os.Exit(2)
		}
		var pkgs []string
		for _, p := range ld.prog.AllPackages() {
			if strings.HasPrefix(p.Pkg.Path(), "github.com/go-netty/") {
				pkgs = append(pkgs, p.Pkg.Path())
			}
		}
		sort.Strings(pkgs)
		for _, pk := range pkgs {
			sets := ld.exportedMethodSets(pk)
			var ns []string
			for n := range sets {
				ns = append(ns, n)
			}
			sort.Strings(ns)
			fmt.Println("##", pk)
			for _, n := range ns {
				fmt.Printf("//@ methods %s: %s\n", n, strings.Join(sets[n], " "))
			}
		}
	case "list":
		ld, err := loadRepo(repoDir, filepath.Join(verifDir, "engine", "contracts"))
		if err != nil {
			fmt.Fprintln(os.Stderr, err)
			os.Exit(2)
		}
		for _, k := range ld.cs.Order {
			c := ld.cs.Funcs[k]
			fmt.Printf("%-90s assumed=%v inline=%v props=%v\n", k, c.Assumed, c.Inline, c.Props)
		}
	default:
		usage()
	}
}

func debugFunc(sub string, keep, verbose bool, timeout int) int {
	t0 := time.Now()
	ld, err := loadRepo(repoDir, filepath.Join(verifDir, "engine", "contracts"))
	if err != nil {
		fmt.Fprintln(os.Stderr, "engine error:", err)
		return 2
	}
	fmt.Printf("loaded in %.1fs\n", time.Since(t0).Seconds())
	var results []*FuncResult
	for _, k := range ld.cs.Order {
		c := ld.cs.Funcs[k]
		if c.Assumed || c.Iface || (c.Inline && len(c.Ensures) == 0) || !strings.Contains(k, sub) {
			continue
		}
		if len(ld.fnByKey[k]) == 0 {
			continue
		}
		results = append(results, ld.verifyFunction(c))
	}
	if strings.HasPrefix(sub, "static:") {
		results = append(results, ld.staticScans(strings.TrimPrefix(sub, "static:"))...)
	}
	for _, l := range ld.cs.Lemmas {
		if strings.Contains("lemma:"+l.Name, sub) {
			results = append(results, ld.verifyLemma(l))
		}
	}
	var all []*Obligation
	rc := 0
	for _, r := range results {
		if r.Err != "" {
			fmt.Printf("ENGINE ERROR in %s: %s\n", r.Key, r.Err)
			rc = 2
		}
		all = append(all, r.Obls...)
	}
	if timeout == 0 {
		timeout = 10
	}
	work := filepath.Join(verifDir, ".work", "debug")
	os.RemoveAll(work)
	cfg := &SolverCfg{WorkDir: work, Timeout: time.Duration(timeout) * time.Second, Parallel: 16, KeepFiles: keep}
	stats := &solverStats{byBack: map[string]int{}}
	solveAll(cfg, all, stats)
	for _, r := range results {
		fmt.Printf("== %s (mode %s, %d paths)\n", r.Key, r.Mode, r.Paths)
		if r.FalseAssumes > 0 {
			fmt.Printf("  WARNING: %d path(s) ended by a literally false hypothesis (vacuity hazard)\n", r.FalseAssumes)
		}
		for _, o := range r.Obls {
			status := "ok  "
			if !o.Discharged {
				status = "FAIL"
				if rc == 0 {
					rc = 1
				}
			}
			var secs float64
			for _, q := range o.Queries {
				secs += q.Secs
			}
			fmt.Printf("  %s %-70s q=%d triv=%d %.2fs", status, o.Name, len(o.Queries), o.Trivial, secs)
			if o.Failed != nil {
				fmt.Printf("  [%s by %s] %s", o.Failed.Verdict, o.Failed.Solver, o.Failed.Desc)
			}
			if o.Static {
				fmt.Printf("  %s", o.Detail)
			}
			fmt.Println()
			if o.Failed != nil && verbose && o.Failed.Model != "" {
				fmt.Println("     model:", strings.ReplaceAll(o.Failed.Model, "\n", " "))
			}
		}
	}
	fmt.Printf("queries=%d solver_s=%.1f wall=%.1fs backends=%v\n", stats.queries, stats.secs, time.Since(t0).Seconds(), stats.byBack)
	return rc
}

