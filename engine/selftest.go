package main

// Must-fail corpus (DESIGN.md 2.6): source mutations that compile and pass the test
// suite but break a property. Thorough mode applies each to a scratch copy of /repo
// (outside /repo and /verif), requires a named obligation to fail, removes the copy.

import (
	"encoding/json"
	"fmt"
	"os"
	"os/exec"
	"path/filepath"
	"regexp"
	"sort"
	"strings"
)

type mutantMeta struct {
	Property string   `json:"property"`
	Expect   []string `json:"expect"` // regexps: at least one failed obligation must match one of them
	What     string   `json:"what"`
}

func scratchRoot() string {
	if d := os.Getenv("VERIF_SCRATCH"); d != "" {
		return d
	}
	return "/var/tmp"
}

// runMutant verifies property id on a copy of the repo with patch applied and
// returns the names of failed obligations.
func runMutant(id, patch string) (failed []string, errs []string, err error) {
	if abs, e := filepath.Abs(patch); e == nil {
		patch = abs
	}
	dir, err := os.MkdirTemp(scratchRoot(), "verif-mutant-")
	if err != nil {
		return nil, nil, err
	}
	defer os.RemoveAll(dir)
	cp := exec.Command("rsync", "-a", "--exclude", ".git", repoDir+"/", dir+"/")
	if out, err := cp.CombinedOutput(); err != nil {
		return nil, nil, fmt.Errorf("copy: %v: %s", err, out)
	}
	ap := exec.Command("patch", "-p1", "-s", "-i", patch)
	ap.Dir = dir
	if out, err := ap.CombinedOutput(); err != nil {
		return nil, nil, fmt.Errorf("patch %s does not apply: %v: %s", patch, err, out)
	}
	saved := repoDir
	repoDir = dir
	defer func() { repoDir = saved }()
	ld, err := loadRepo(dir, filepath.Join(verifDir, "engine", "contracts"))
	if err != nil {
		return nil, nil, err
	}
	plan := ld.planFor(id)
	done := map[string]bool{}
	var all []*Obligation
	queue := append([]*Contract(nil), plan.funcs...)
	for len(queue) > 0 {
		c := queue[0]
		queue = queue[1:]
		if done[c.Key] {
			continue
		}
		done[c.Key] = true
		r := ld.verifyFunction(c)
		if r.Err != "" {
			errs = append(errs, r.Key+": "+r.Err)
		}
		all = append(all, r.Obls...)
		for _, u := range r.Used {
			uc := ld.cs.Funcs[u]
			if uc != nil && uc.Iface {
				for _, ic := range ld.implContracts(u) {
					if !done[ic.Key] {
						queue = append(queue, ic)
					}
				}
			}
			if uc == nil || uc.Assumed || uc.Iface || uc.Inline || done[u] || len(ld.fnByKey[u]) == 0 {
				continue
			}
			queue = append(queue, uc)
		}
	}
	for _, l := range plan.lemmas {
		all = append(all, ld.verifyLemma(l).Obls...)
	}
	planFuncs = done
	for _, r := range ld.staticScans(id) {
		all = append(all, r.Obls...)
	}
	for _, r := range ld.missingObligations(id) {
		all = append(all, r.Obls...)
	}
	work := filepath.Join(verifDir, ".work", fmt.Sprintf("%s-mutant-%d", id, os.Getpid())) // concurrent runs must not share query files
	os.RemoveAll(work)
	defer os.RemoveAll(work)
	cfg := &SolverCfg{WorkDir: work, Timeout: 30e9, Parallel: 16, NoPatient: true, CacheDir: mutantCacheDir()}
	stats := &solverStats{byBack: map[string]int{}}
	solveAll(cfg, all, stats)
	for _, o := range all {
		if !o.Discharged && forProperty(o.Name, id) {
			failed = append(failed, o.Name)
		}
	}
	sort.Strings(failed)
	return failed, errs, nil
}

func runSelftest(ld *Loaded, id string, verbose bool) thoroughResult {
	res := thoroughResult{cov: map[string]interface{}{}}
	dirs, _ := filepath.Glob(filepath.Join(verifDir, "selftest", id, "*"))
	dirs2, _ := filepath.Glob(filepath.Join(verifDir, "seeded", "*"))
	sort.Strings(dirs)
	var report []map[string]interface{}
	caught := 0
	total := 0
	for _, d := range append(dirs, dirs2...) {
		patch := filepath.Join(d, "patch.diff")
		if _, err := os.Stat(patch); err != nil {
			continue
		}
		var meta mutantMeta
		if b, err := os.ReadFile(filepath.Join(d, "meta.json")); err == nil {
			json.Unmarshal(b, &meta)
		}
		if meta.Property != id {
			continue
		}
		total++
		failed, errs, err := runMutant(id, patch)
		entry := map[string]interface{}{"mutant": filepath.Base(d), "what": meta.What}
		if err != nil {
			entry["error"] = err.Error()
			report = append(report, entry)
			res.fail = true
			res.msg = fmt.Sprintf("mutant %s could not be run: %v", filepath.Base(d), err)
			continue
		}
		ok := false
		for _, f := range failed {
			for _, e := range meta.Expect {
				if re, err := regexp.Compile(e); err == nil && re.MatchString(f) {
					ok = true
				}
			}
			if len(meta.Expect) == 0 {
				ok = true
			}
		}
		if len(errs) > 0 && !ok {
			entry["engine_errors"] = errs
		}
		entry["failed_obligations"] = failed
		entry["caught"] = ok
		if ok {
			caught++
		} else {
			res.fail = true
			res.msg = fmt.Sprintf("must-fail mutant %s is not caught by the expected obligation (%s)", filepath.Base(d), strings.Join(meta.Expect, " | "))
		}
		if verbose {
			fmt.Printf("selftest %s: caught=%v failed=%v\n", filepath.Base(d), ok, failed)
		}
		report = append(report, entry)
	}
	res.cov["selftest_mutants"] = total
	res.cov["selftest_caught"] = caught
	res.cov["selftest_report"] = report
	if res.fail {
		p := filepath.Join(verifDir, "replays", id, "selftest.json")
		os.MkdirAll(filepath.Dir(p), 0o755)
		b, _ := json.MarshalIndent(map[string]interface{}{"property": id, "obligation": "selftest", "report": report, "confirmed": false}, "", " ")
		os.WriteFile(p, b, 0o644)
		res.replay = p
	}
	return res
}

// mutantCacheDir: mutant runs reuse the verdicts of queries whose text is identical to one
// already decided (nearly all of them: a patch changes a few functions). Development tooling
// only - ./check never uses a cache.
func mutantCacheDir() string {
	d := filepath.Join(scratchRoot(), "vcgen-query-cache")
	if os.Getenv("VCGEN_NO_CACHE") != "" {
		return ""
	}
	os.MkdirAll(d, 0o755)
	return d
}
