package main

// Control transfer, calls (by contract, inlined, built-in), panics and defers,
// loop cutting.

import (
	"go/parser"
	"fmt"
	"go/ast"
	"go/types"
	"strings"

	"golang.org/x/tools/go/ssa"
)

func (x *Exec) complex(st *State, fr *Frame, in ssa.Instruction, b *ssa.BasicBlock, next func(*State), k exitK) {
	switch in := in.(type) {
	case *ssa.If:
		c := x.operand(st, fr, in.Cond)
		x.branch(st, c.S,
			func(s *State) { x.runBlock(s, fr, b.Succs[0], b, k) },
			func(s *State) { x.runBlock(s, fr, b.Succs[1], b, k) })
	case *ssa.Jump:
		x.runBlock(st, fr, b.Succs[0], b, k)
	case *ssa.Return:
		var res []*Val
		for _, r := range in.Results {
			res = append(res, x.coerce(st, x.operand(st, fr, r), r.Type()))
		}
		k(st, res, nil)
	case *ssa.Panic:
		v := x.operand(st, fr, in.X)
		x.doPanic(st, fr, v, k)
	case *ssa.RunDefers:
		x.runDefers(st, fr, func(s *State, pan *Val) {
			if pan != nil {
				x.finishPanic(s, fr, pan, k)
				return
			}
			next(s)
		})
	case *ssa.Defer:
		d := &deferred{call: &in.Call, site: in}
		for _, a := range in.Call.Args {
			d.args = append(d.args, x.operand(st, fr, a))
		}
		if !in.Call.IsInvoke() {
			if _, isB := in.Call.Value.(*ssa.Builtin); !isB {
				d.fnv = x.operand(st, fr, in.Call.Value)
			}
		} else {
			d.fnv = x.operand(st, fr, in.Call.Value)
		}
		st.F(fr).defers = append(st.F(fr).defers, d)
		next(st)
	case *ssa.Call:
		var args []*Val
		for _, a := range in.Call.Args {
			args = append(args, x.operand(st, fr, a))
		}
		var fnv *Val
		if _, isB := in.Call.Value.(*ssa.Builtin); !isB {
			fnv = x.operand(st, fr, in.Call.Value)
		}
		x.doCall(st, fr, in, &in.Call, fnv, args,
			func(s *State, res []*Val) {
				if len(res) == 1 {
					x.setVal(s, fr, in, res[0])
				} else if len(res) > 1 {
					x.setVal(s, fr, in, &Val{T: in.Type(), K: KTuple, Fs: res})
				} else {
					x.setVal(s, fr, in, &Val{T: in.Type(), K: KTuple})
				}
				next(s)
			},
			func(s *State, pan *Val) { x.doPanic(s, fr, pan, k) })
	case *ssa.Go:
		x.goStmt(st, fr, in, next)
	case *ssa.Select:
		x.selectStmt(st, fr, in, next)
	case *ssa.Send:
		x.sendStmt(st, fr, in, next)
	case *ssa.UnOp: // channel receive
		x.recvStmt(st, fr, in, next)
	case *ssa.Range:
		x.rangeStmt(st, fr, in, next)
	case *ssa.Next:
		x.nextStmt(st, fr, in, next)
	default:
		engineErr("unsupported instruction %T in %s: %s", in, fr.fn, in)
	}
}

// ---------------------------------------------------------------------------
// panics and defers. The dynamic part of a frame (SSA values, names, defer
// stack, panic state) lives in the State (st.F(fr)) and is copied on fork.

func (x *Exec) doPanic(st *State, fr *Frame, pv *Val, k exitK) {
	fd := st.F(fr)
	fd.panicking = pv
	fd.recovered = false
	x.runDefers(st, fr, func(s *State, pan *Val) {
		if pan != nil {
			// a deferred call panicked: it replaces the current panic
			x.finishPanic(s, fr, pan, k)
			return
		}
		x.finishPanic(s, fr, s.F(fr).panicking, k)
	})
}

func (x *Exec) finishPanic(st *State, fr *Frame, pv *Val, k exitK) {
	fd := st.F(fr)
	if pv == nil && fd.recovered {
		// recovered: resume at the Recover block
		fd.recovered = false
		if fr.fn.Recover != nil {
			x.runBlock(st, fr, fr.fn.Recover, nil, k)
			return
		}
		var res []*Val
		rs := fr.fn.Signature.Results()
		for i := 0; i < rs.Len(); i++ {
			res = append(res, st.m.zero(rs.At(i).Type()))
		}
		k(st, res, nil)
		return
	}
	if pv == nil {
		engineErr("finishPanic without panic value in %s", fr.fn)
	}
	k(st, nil, pv)
}

// runDefers runs the deferred calls of fr in LIFO order. done(st, pan): pan != nil
// if a deferred call panicked (remaining defers have been run).
func (x *Exec) runDefers(st *State, fr *Frame, done func(*State, *Val)) {
	fd := st.F(fr)
	if len(fd.defers) == 0 {
		done(st, nil)
		return
	}
	d := fd.defers[len(fd.defers)-1]
	fd.defers = fd.defers[:len(fd.defers)-1]
	x.doCallDeferred(st, fr, d,
		func(s *State, _ []*Val) {
			x.runDefers(s, fr, done)
		},
		func(s *State, pan *Val) {
			// panic inside a deferred call: becomes the current panic, keep unwinding
			s.F(fr).panicking = pan
			s.F(fr).recovered = false
			x.runDefers(s, fr, func(s2 *State, pan2 *Val) {
				if pan2 != nil {
					done(s2, pan2)
				} else if s2.F(fr).panicking != nil {
					done(s2, s2.F(fr).panicking)
				} else {
					done(s2, nil)
				}
			})
		})
}

func (x *Exec) doCallDeferred(st *State, fr *Frame, d *deferred, kn func(*State, []*Val), kp func(*State, *Val)) {
	x.doCallEx(st, fr, d.site, d.call, d.fnv, d.args, fr, kn, kp)
}

func (x *Exec) doCall(st *State, fr *Frame, site ssa.Instruction, cc *ssa.CallCommon, fnv *Val, args []*Val, kn func(*State, []*Val), kp func(*State, *Val)) {
	x.doCallEx(st, fr, site, cc, fnv, args, nil, kn, kp)
}

// doCallEx dispatches a call. deferOf != nil when the call is a deferred call of that frame.
func (x *Exec) doCallEx(st *State, fr *Frame, site ssa.Instruction, cc *ssa.CallCommon, fnv *Val, args []*Val, deferOf *Frame, kn func(*State, []*Val), kp func(*State, *Val)) {
	if fr.contract != nil && len(fr.contract.After) > 0 {
		kn = x.withAfter(fr, site, cc, kn)
	}
	if b, ok := cc.Value.(*ssa.Builtin); ok {
		x.builtin(st, fr, site, b, cc, args, deferOf, kn, kp)
		return
	}
	if cc.IsInvoke() {
		x.invoke(st, fr, site, cc, fnv, args, kn, kp)
		return
	}
	var fn *ssa.Function
	var binds []*Val
	if sc := cc.StaticCallee(); sc != nil {
		fn = sc
		if fnv != nil && fnv.Cl != nil && fnv.Cl.Fn == sc {
			binds = fnv.Cl.Binds
		}
	} else if fnv != nil && fnv.Cl != nil {
		fn = fnv.Cl.Fn
		binds = fnv.Cl.Binds
	}
	if fn == nil {
		x.dynamicCall(st, fr, site, cc, fnv, args, kn, kp)
		return
	}
	x.callFunction(st, fr, site, fn, args, binds, deferOf, kn, kp)
}

func (x *Exec) callFunction(st *State, fr *Frame, site ssa.Instruction, fn *ssa.Function, args []*Val, binds []*Val, deferOf *Frame, kn func(*State, []*Val), kp func(*State, *Val)) {
	key := fnKey(fn)
	// the initialiser of an imported package, called from a package initialiser: it has completed
	// before this package's variables are initialised, cannot name this package's variables
	// (imports are acyclic), and a panic in it ends the program before any API call
	if isPkgInit(fn) && isPkgInit(fr.fn) && fn.Pkg != fr.fn.Pkg {
		kn(st, nil)
		return
	}
	if bm := lookupBuiltinModel(key); bm != nil {
		bm(x, st, fr, site, fn, args, kn, kp)
		return
	}
	c := x.cs.Funcs[key]
	// synthetic wrappers ($bound, $thunk, promoted-method wrappers) are executed in place
	if c == nil && (fn.Synthetic != "" && fn.Blocks != nil && !strings.HasPrefix(fn.Synthetic, "instance of")) {
		x.inlineCall(st, fr, site, fn, args, binds, deferOf, kn, kp)
		return
	}
	if c == nil && fn.Parent() != nil {
		// anonymous function: always inlined (its effects belong to the enclosing function's contract)
		x.inlineCall(st, fr, site, fn, args, binds, deferOf, kn, kp)
		return
	}
	if c == nil && fn.Blocks != nil && x.autoInlinable(fr, fn) {
		// a repository function without a contract (typically a helper introduced by a refactoring):
		// executed in place, like an anonymous function, and recorded as such
		x.used["auto-inlined:"+key] = true
		x.inlineCall(st, fr, site, fn, args, binds, deferOf, kn, kp)
		return
	}
	if c == nil {
		if dc := x.defaultContract(fn); dc != nil {
			c = dc
			key = dc.Key
		}
	}
	if c == nil && (fn.Pkg == nil || !strings.HasPrefix(fn.Pkg.Pkg.Path(), "github.com/go-netty/")) && typesPkgOf(fn) != nil && !strings.HasPrefix(typesPkgOf(fn).Path(), "github.com/go-netty/") {
		// a library function or method nobody wrote a contract for: an observed call that may do
		// anything. What the surrounding contract needs to know about it then fails as a named
		// obligation (and the call is listed as "default-unknown:<name>" among the assumed contracts).
		dk := "default-unknown:" + key
		c = x.cs.Funcs[dk]
		if c == nil {
			c = &Contract{Key: dk, Short: shortStem("", key), Assumed: true, Event: true, Modifies: []string{"all"},
				Loops: map[int]*LoopSpec{}, PureParams: map[string]bool{}}
			if e, err := parser.ParseExpr("true"); err == nil {
				c.MayPanic = &Clause{Src: "true", Expr: e}
			}
			x.cs.Funcs[dk] = c
		}
		key = dk
	}
	if c == nil {
		engineErr("no contract for %s (called from %s)", key, fr.fn)
	}
	if c.Inline {
		x.used[key] = true
		x.inlineCall(st, fr, site, fn, args, binds, deferOf, kn, kp)
		return
	}
	x.used[key] = true
	env := x.callEnv(st, c, fn.Signature, fn, args, binds)
	if c.Pure && len(binds) == 0 {
		kn0 := kn
		kn = func(s *State, res []*Val) {
			if len(res) == 1 {
				s.assume(valEq(res[0], x.pureApp(s, c, fn, args)))
			}
			kn0(s, res)
		}
	}
	x.applyContract(st, fr, site, c, env, fn.Signature, args, kn, kp)
}

// effectFreePkgs: standard-library packages whose package-level functions neither touch state the
// contracts speak about nor call back into the repository (formatting, conversion, logging,
// arithmetic). A call of such a function that has no explicit contract gets the default contract
// "no event, modifies nothing, result arbitrary, does not panic" - recorded under the assumed
// contracts as "default:<name>" - so that adding a log line or a formatted error does not turn a
// check into an engine error. Methods and everything else still need an explicit contract.
var effectFreePkgs = map[string]bool{"bytes": true, "fmt": true, "log": true, "errors": true, "strconv": true, "strings": true,
	"unicode": true, "unicode/utf8": true, "math": true, "math/bits": true, "path": true, "sort": false}

func (x *Exec) defaultContract(fn *ssa.Function) *Contract {
	if fn.Pkg == nil || !effectFreePkgs[fn.Pkg.Pkg.Path()] || fn.Signature.Recv() != nil {
		return nil
	}
	key := "default:" + fnKey(fn)
	if c := x.cs.Funcs[key]; c != nil {
		return c
	}
	c := &Contract{Key: key, Short: fn.Name(), Assumed: true, Loops: map[int]*LoopSpec{}, PureParams: map[string]bool{}}
	x.cs.Funcs[key] = c
	return c
}

// autoInlinable: fn belongs to the repository, and it is not already being executed on this call
// stack beyond a small inlining depth (recursion is not unrolled).
func (x *Exec) autoInlinable(fr *Frame, fn *ssa.Function) bool {
	tp := typesPkgOf(fn)
	if tp == nil || !strings.HasPrefix(tp.Path(), "github.com/go-netty/") {
		return false
	}
	return fr.fn != fn && fr.depth < 6
}

// pureApp is the application of the uninterpreted function standing for a
// pure Go function. The function's contract is instantiated at the argument
// terms (ground instantiation keeps failing queries quantifier-free, hence
// model-producing); the returned fact must be assumed by the caller, inside any
// enclosing quantifier.
func (x *Exec) pureAppFact(st *State, c *Contract, fn *ssa.Function, args []*Val) (*Val, Tm) {
	m := st.m
	uf := "fn_" + sanitize(c.Short) + "_" + m.String()
	rs := fn.Signature.Results()
	if rs.Len() != 1 {
		engineErr("pure function %s must have one result", c.Key)
	}
	rl := m.leaves(rs.At(0).Type())
	if len(rl) != 1 {
		engineErr("pure function %s must return a scalar", c.Key)
	}
	var sorts, terms []string
	for _, a := range args {
		for _, t := range a.flatten() {
			sorts = append(sorts, string(t.Sort))
			terms = append(terms, t.S)
		}
	}
	x.declUF(uf, fmt.Sprintf("(declare-fun %s (%s) %s)", uf, strings.Join(sorts, " "), rl[0].sort))
	res := m.build(rs.At(0).Type(), []Tm{tm(rl[0].sort, "(%s %s)", uf, strings.Join(terms, " "))})
	env := x.callEnv(st, c, fn.Signature, fn, args, nil)
	env.vars["result"] = res
	env.vars["result0"] = res
	env.noPure = true
	var pre []Tm
	for i, p := range fn.Params {
		if ii, ok := basicIntInfo(p.Type()); ok {
			pre = append(pre, m.inRange(args[i].S, ii))
		}
	}
	for _, r := range c.Requires {
		pre = append(pre, env.withPol(0).evalBool(r))
	}
	if c.PanicsIff != nil {
		pre = append(pre, not(env.evalBool(*c.PanicsIff)))
	} else if c.MayPanic != nil {
		pre = append(pre, not(env.evalBool(*c.MayPanic)))
	}
	var post []Tm
	for _, en := range c.Ensures {
		post = append(post, env.hyp(en))
	}
	if ii, ok := basicIntInfo(rs.At(0).Type()); ok {
		post = append(post, m.inRange(res.S, ii))
	}
	return res, implies(and(pre...), and(post...))
}

func (x *Exec) pureApp(st *State, c *Contract, fn *ssa.Function, args []*Val) *Val {
	v, fact := x.pureAppFact(st, c, fn, args)
	st.assume(fact)
	return v
}

// withAfter wraps the normal continuation of a call with the ghost assertions
// the enclosing function's contract places after calls of this callee.
func (x *Exec) withAfter(fr *Frame, site ssa.Instruction, cc *ssa.CallCommon, kn func(*State, []*Val)) func(*State, []*Val) {
	var name string
	if cc.IsInvoke() {
		name = strings.TrimPrefix(ifaceMethodKey(cc.Method), "iface:")
	} else if sc := cc.StaticCallee(); sc != nil {
		name = fnKey(sc)
	} else {
		name = cc.Value.Name()
	}
	var cls []AfterClause
	for _, a := range fr.contract.After {
		if strings.HasPrefix(a.Callee, "store:") || a.Callee == "exit" {
			continue
		}
		if a.Callee == name || strings.HasSuffix(name, "."+a.Callee) || strings.HasSuffix(name, a.Callee) {
			cls = append(cls, a)
		}
	}
	if len(cls) == 0 {
		return kn
	}
	return func(s *State, res []*Val) {
		env := x.frameEnv(s, fr)
		for i, r := range res {
			env.vars[fmt.Sprintf("result%d", i)] = r
		}
		if len(res) == 1 {
			env.vars["result"] = res[0]
		}
		ord := 0
		if site != nil {
			ord = x.siteOrdinal(fr.fn, site, "call")
		}
		x.runGhost(s, fr, env, cls, ord)
		kn(s, res)
	}
}

// instantiateRequires: cl is "<label>(e1, ..., en)". The requires clause with
// that label must be a nest of universal quantifiers; the result is its body with
// the bound variables replaced by the given values, evaluated in the entry state.
// Sound by construction: an instance of a universally quantified hypothesis.
func (x *Exec) instantiateRequires(env *CEnv, c *Contract, cl Clause) Tm {
	call, ok := cl.Expr.(*ast.CallExpr)
	if !ok {
		engineErr("instantiate: expected <label>(args)")
	}
	id, ok := call.Fun.(*ast.Ident)
	if !ok {
		engineErr("instantiate: expected <label>(args)")
	}
	var req *Clause
	for i := range c.Requires {
		if c.Requires[i].Label == id.Name {
			req = &c.Requires[i]
		}
	}
	for i := range c.Assumes {
		if c.Assumes[i].Label == id.Name {
			req = &c.Assumes[i]
		}
	}
	if req == nil {
		engineErr("instantiate: no requires clause labelled %q in contract of %s", id.Name, c.Key)
	}
	sub := env.sub()
	for k, v := range env.vars {
		sub.vars[k] = v
	}
	var guards []Tm
	body := req.Expr
	m := env.st.m
	ai := 0
	for {
		ce, ok := body.(*ast.CallExpr)
		if !ok {
			break
		}
		fid, ok := ce.Fun.(*ast.Ident)
		if !ok {
			break
		}
		var name string
		var next ast.Expr
		var lo, hi ast.Expr
		switch fid.Name {
		case "forallint", "forallref":
			name, next = ce.Args[0].(*ast.Ident).Name, ce.Args[1]
		case "forallv":
			name, next = ce.Args[0].(*ast.Ident).Name, ce.Args[2]
		case "forall":
			name, lo, hi, next = ce.Args[0].(*ast.Ident).Name, ce.Args[1], ce.Args[2], ce.Args[3]
		default:
			name = ""
		}
		if name == "" {
			break
		}
		if ai >= len(call.Args) {
			engineErr("instantiate %s: too few arguments", id.Name)
		}
		v := env.eval(call.Args[ai])
		if v.C != nil {
			v = env.typed(v, types.Typ[types.Int])
		}
		ai++
		sub.bound[name] = v
		if lo != nil {
			old := *sub
			old.inOld = true
			l := x.toIdx(env.st, old.typed(old.eval(lo), types.Typ[types.Int]))
			h := x.toIdx(env.st, old.typed(old.eval(hi), types.Typ[types.Int]))
			guards = append(guards, m.le(l, x.toIdx(env.st, v)), m.lt(x.toIdx(env.st, v), h))
		}
		body = next
	}
	if ai != len(call.Args) {
		engineErr("instantiate %s: %d arguments for %d bound variables", id.Name, len(call.Args), ai)
	}
	old := *sub
	old.inOld = true
	r := old.eval(body)
	return implies(and(guards...), r.S)
}

// runGhost executes ghost statements (assert-then-assume, instantiate, ghostset) in order.
func (x *Exec) runGhost(s *State, fr *Frame, env *CEnv, cls []AfterClause, ord int) {
	for i, a := range cls {
		switch {
		case a.Inst:
			s.assume(x.instantiateRequires(env, fr.contract, a.Cl))
		case a.Ghost != "":
			if gd := x.cs.Ghosts[a.Ghost]; gd != nil && ghostIsLocal(gd) && fr.depth > 0 {
				continue // proof-local ghost: only the function's own verification maintains it
			}
			x.ghostSet(s, env, a)
		default:
			lbl := a.Cl.Label
			if lbl == "" {
				lbl = fmt.Sprint(i)
			}
			g, note := safeEval(env, a.Cl)
			x.emit(s, fmt.Sprintf("ghost:%s%s@%d", fr.prefix, lbl, ord), "ghost", g, fmt.Sprintf("ghost assertion %q at %s%s", a.Cl.Src, a.Callee, note))
			s.assume(g)
		}
	}
}

// ghostSet: g := lambda(vars). e  (e is evaluated before the update)
func (x *Exec) ghostSet(s *State, env *CEnv, a AfterClause) {
	gd := x.cs.Ghosts[a.Ghost]
	if gd == nil {
		engineErr("ghostset: unknown ghost %q", a.Ghost)
	}
	if len(a.GhostVars) != len(gd.Keys) {
		engineErr("ghostset %s: %d variables for %d keys", a.Ghost, len(a.GhostVars), len(gd.Keys))
	}
	m := s.m
	sub := env.sub()
	for k, v := range env.vars {
		sub.vars[k] = v
	}
	var bvs []string
	var keys []Tm
	for i, vn := range a.GhostVars {
		ks := x.ghostKeySort(m, gd.Keys[i])
		bn := freshName(vn)
		bvs = append(bvs, fmt.Sprintf("(%s %s)", bn, ks))
		keys = append(keys, Tm{bn, ks})
		kk := gd.Keys[i]
		switch {
		case strings.HasPrefix(kk, "*"):
			sub.bindQ(vn, &Val{T: x.resolveType(gd.Pkg, kk), K: KPtr, S: Tm{bn, ks}})
		case kk == "ref" || kk == "addr":
			sub.bindQ(vn, &Val{T: types.Typ[types.UnsafePointer], K: KPtr, S: Tm{bn, ks}})
		case kk == "int":
			sub.bindQ(vn, &Val{T: types.Typ[types.Int], K: KInt, S: Tm{bn, ks}})
		default:
			engineErr("ghostset: unsupported key sort %q", kk)
		}
	}
	var sides []Tm
	sub.sides = &sides
	rhs := sub.eval(a.Cl.Expr)
	rt := sub.typedGhostVal(gd, rhs)
	sort := x.ghostSort(m, gd)
	na := s.declare("G."+a.Ghost, sort)
	app := na
	for _, k := range keys {
		app = sel(app, k, arrayElemSort(app.Sort))
	}
	s.assume(tm(SBool, "(forall (%s) (! %s :pattern (%s)))", strings.Join(bvs, " "), implies(and(sides...), eq(app, rt)).S, app.S))
	key := "ghost|" + a.Ghost
	if _, ok := s.sorts[key]; !ok {
		s.sorts[key] = sort
	}
	s.heap[key] = na
}

// afterStore runs the ghost statements the contract attaches to stores to a field.
func (x *Exec) afterStore(st *State, fr *Frame, site ssa.Instruction, p *Ptr) {
	if fr.contract == nil || len(fr.contract.After) == 0 || p.Kind != PObj || len(p.Path) != 1 {
		return
	}
	stt, ok := p.Root.Underlying().(*types.Struct)
	if !ok {
		return
	}
	name := namedStructKey(p.Root)
	if i := strings.LastIndex(name, "."); i >= 0 {
		name = name[i+1:]
	}
	point := "store:" + name + "." + stt.Field(p.Path[0]).Name()
	var cls []AfterClause
	for _, a := range fr.contract.After {
		if a.Callee == point {
			cls = append(cls, a)
		}
	}
	if len(cls) == 0 {
		return
	}
	x.runGhost(st, fr, x.frameEnv(st, fr), cls, x.siteOrdinal(fr.fn, site, "nil"))
}
