package main

// Evaluation of contract expressions (Go expression syntax, DESIGN.md appendix A)
// to symbolic values in a given state.

import (
	"fmt"
	"go/ast"
	"go/constant"
	"go/token"
	"go/types"
	"math/big"
	"strconv"
	"strings"

	"golang.org/x/tools/go/ssa"
)

type fvBind struct {
	name string
	val  *Val
}

type CEnv struct {
	x           *Exec
	st          *State
	vars        map[string]*Val
	bound       map[string]*Val
	pkg         string
	contract    *Contract
	fn          *ssa.Function
	frame       *Frame
	freevars    []fvBind
	oldHeap     map[string]Tm
	curHeap     map[string]Tm // nil: st.heap
	inOld       bool
	traceBase   int
	atHeader    map[string]*Val
	panicked    bool
	panicVal    *Val
	allocBefore Tm
	specDepth   int
	noPure      bool
	sides       *[]Tm // valid facts to be placed inside the innermost enclosing quantifier
	qvars       []string // SMT names of the quantified variables in scope
	pol         int   // polarity of the position being evaluated: +1 assumed, -1 to be proved, 0 unknown
}

// flipped returns a copy of e for a sub-expression of opposite polarity.
func (e *CEnv) withPol(p int) *CEnv {
	n := *e
	n.pol = p
	return &n
}

// quantBody combines a quantifier body with the valid side facts collected while
// evaluating it: conjoined when the formula is assumed, antecedent when it is to be
// proved, dropped when the polarity is unknown (always sound).
func (e *CEnv) quantBody(guard Tm, sides []Tm, body Tm, universal bool) Tm {
	s := and(sides...)
	pol := e.pol
	if !universal {
		pol = -pol
	}
	switch {
	case pol > 0 && universal:
		return implies(guard, and(s, body))
	case pol < 0 && universal:
		return implies(and(guard, s), body)
	case pol > 0 && !universal: // exists, to be proved: exists i. guard && s && body  (s valid)
		return and(guard, body)
	case pol < 0 && !universal: // exists, assumed: exists i. guard && body && s
		return and(guard, body, s)
	}
	if universal {
		return implies(guard, body)
	}
	return and(guard, body)
}

// trigger registers a ground index term: quantified hypotheses are instantiated at it
// (and its neighbours) through the pattern (Tr k).
func (e *CEnv) trigger(t Tm) {
	if e.sides != nil && e.mentionsBound(t) {
		return // not a ground term
	}
	e.st.trigger(t)
}

// mentionsBound: does the term mention a variable bound by an enclosing quantifier?
func (e *CEnv) mentionsBound(t Tm) bool {
	for _, q := range e.qvars {
		if strings.Contains(t.S, q) {
			return true
		}
	}
	return false
}

func (e *CEnv) triggerRef(t Tm) {
	if e.sides != nil && e.mentionsBound(t) {
		return
	}
	e.st.triggerRef(t)
}

func (e *CEnv) tryEval(ex ast.Expr) (v *Val, ok bool) {
	defer func() {
		if r := recover(); r != nil {
			if _, isEE := r.(*EngineError); isEE {
				v, ok = nil, false
				return
			}
			panic(r)
		}
	}()
	return e.eval(ex), true
}

// evMatches: an event is named by its short name, a suffix of its callee key, or - for atomic
// points - by the operation without the "select " prefix ("send c.writeQueue" matches both the
// bare send and the select case).
func evMatches(ev *Event, name string) bool {
	return ev.Short == name || strings.HasSuffix(ev.Callee, "."+name) || ev.Callee == name || strings.HasSuffix(ev.Short, " "+name)
}

// hyp / goal evaluate a clause in assumed / to-be-proved position.
func (e *CEnv) hyp(c Clause) Tm  { return e.withPol(1).evalBool(c) }
func (e *CEnv) goal(c Clause) Tm { return e.withPol(-1).evalBool(c) }

func (e *CEnv) sub() *CEnv {
	n := *e
	n.bound = map[string]*Val{}
	for k, v := range e.bound {
		n.bound[k] = v
	}
	n.qvars = append([]string(nil), e.qvars...)
	return &n
}

// bindQ binds a quantified variable (all its SMT leaves are recorded as bound names).
func (e *CEnv) bindQ(name string, v *Val) {
	e.bound[name] = v
	for _, l := range v.flatten() {
		e.qvars = append(e.qvars, l.S)
	}
}

func (e *CEnv) view() map[string]Tm {
	if e.inOld && e.oldHeap != nil {
		return e.oldHeap
	}
	if e.curHeap != nil {
		return e.curHeap
	}
	return e.st.heap
}

func (e *CEnv) errf(format string, args ...interface{}) {
	where := ""
	if e.contract != nil {
		where = fmt.Sprintf(" [contract of %s, %s]", e.contract.Key, e.contract.File)
	}
	engineErr("contract expression: "+format+where, args...)
}

// frameEnv builds the environment for clauses evaluated inside a running frame
// (loop invariants).
func (x *Exec) frameEnv(st *State, fr *Frame) *CEnv {
	env := &CEnv{x: x, st: st, vars: map[string]*Val{}, frame: fr, fn: fr.fn, oldHeap: fr.entryHeap, contract: fr.contract}
	if fr.contract != nil {
		env.pkg = fr.contract.Pkg
	} else if fr.fn.Pkg != nil {
		env.pkg = fr.fn.Pkg.Pkg.Path()
	}
	for k, v := range x.forallVs {
		env.vars[k] = v
	}
	for i, fv := range fr.fn.FreeVars {
		if i < len(fr.binds) {
			env.freevars = append(env.freevars, fvBind{fv.Name(), fr.binds[i]})
		}
	}
	return env
}

// load reads through p in the current heap view; the type invariants of the loaded
// value (true in every reachable state) are added as side facts.
func (e *CEnv) load(p *Ptr) *Val {
	v, entry := e.st.loadFromE(e.view(), p)
	if e.inOld {
		return v // references in the old state are bounded by the old allocation counter; skip
	}
	f := e.st.wellFormed(v)
	if entry {
		f = and(f, e.st.entryClosed(p, v))
	}
	if e.sides != nil {
		*e.sides = append(*e.sides, f)
	} else {
		e.st.assume(f)
	}
	return v
}

func (e *CEnv) evalBool(c Clause) Tm {
	v := e.eval(c.Expr)
	if v.K != KBool {
		e.errf("clause %q is not boolean", c.Src)
	}
	return v.S
}

// mkForallP builds (forall (binders) (! body :pattern (pats))). A directly nested universal
// quantifier built by this function is merged (its binders and patterns are appended), which
// gives the solvers one multi-pattern over all variables.
func mkForallP(binders string, pats []string, body Tm) Tm {
	const pre = "(forall ("
	if strings.HasPrefix(body.S, pre) && strings.HasSuffix(body.S, ")))") {
		depth := 0
		start := len("(forall ")
		for i := start; i < len(body.S); i++ {
			switch body.S[i] {
			case '(':
				depth++
			case ')':
				depth--
			}
			if depth == 0 {
				inner := body.S[start+1 : i]
				rest := strings.TrimSpace(body.S[i+1 : len(body.S)-1])
				// rest is "(! B :pattern (P...))" or a plain body
				if strings.HasPrefix(rest, "(! ") {
					if j := strings.LastIndex(rest, " :pattern ("); j > 0 {
						ipats := strings.TrimSuffix(rest[j+len(" :pattern ("):], "))")
						b := rest[3:j]
						all := append(append([]string{}, pats...), ipats)
						return tm(SBool, "(forall (%s %s) (! %s :pattern (%s)))", binders, inner, b, strings.Join(all, " "))
					}
				}
				if len(pats) == 0 {
					return tm(SBool, "(forall (%s %s) %s)", binders, inner, rest)
				}
				break
			}
		}
	}
	if len(pats) == 0 {
		return tm(SBool, "(forall (%s) %s)", binders, body.S)
	}
	return tm(SBool, "(forall (%s) (! %s :pattern (%s)))", binders, body.S, strings.Join(pats, " "))
}

func mkForall(binders string, body Tm) Tm { return mkForallP(binders, nil, body) }

func boolVal(t Tm) *Val { return &Val{T: types.Typ[types.Bool], K: KBool, S: t} }

func (e *CEnv) intConst(n *big.Int) *Val {
	return &Val{T: types.Typ[types.UntypedInt], K: KInt, C: n, S: e.st.m.lit(n, goInt)}
}

// typed returns v materialised at integer type t when v is an untyped constant.
func (e *CEnv) typed(v *Val, t types.Type) *Val {
	if v.C == nil || t == nil {
		return v
	}
	ii, ok := basicIntInfo(t)
	if !ok {
		return v
	}
	return &Val{T: t, K: KInt, S: e.st.m.lit(v.C, ii), C: v.C}
}

func (e *CEnv) intInfoOf(v *Val) intInfo {
	if v.T != nil {
		if ii, ok := basicIntInfo(v.T); ok {
			return ii
		}
	}
	return goInt
}

func (e *CEnv) eval(ex ast.Expr) *Val {
	m := e.st.m
	switch n := ex.(type) {
	case *ast.ParenExpr:
		return e.eval(n.X)
	case *ast.BasicLit:
		switch n.Kind {
		case token.INT:
			v, ok := new(big.Int).SetString(strings.ReplaceAll(n.Value, "_", ""), 0)
			if !ok {
				e.errf("bad integer literal %s", n.Value)
			}
			return e.intConst(v)
		case token.CHAR:
			r, _, _, err := strconv.UnquoteChar(n.Value[1:len(n.Value)-1], '\'')
			if err != nil {
				e.errf("bad char literal %s", n.Value)
			}
			return e.intConst(big.NewInt(int64(r)))
		case token.STRING:
			s, err := strconv.Unquote(n.Value)
			if err != nil {
				e.errf("bad string literal %s", n.Value)
			}
			return &Val{T: types.Typ[types.UntypedString], K: KString, Str: &s}
		}
		e.errf("unsupported literal %s", n.Value)
	case *ast.Ident:
		return e.ident(n.Name)
	case *ast.UnaryExpr:
		if n.Op == token.NOT {
			return boolVal(not(e.withPol(-e.pol).eval(n.X).S))
		}
		a := e.eval(n.X)
		switch n.Op {
		case token.NOT:
			return boolVal(not(a.S))
		case token.SUB:
			if a.C != nil {
				return e.intConst(new(big.Int).Neg(a.C))
			}
			return &Val{T: a.T, K: KInt, S: m.neg(a.S)}
		case token.XOR:
			t, _ := m.bitnot(a.S, e.intInfoOf(a))
			return &Val{T: a.T, K: KInt, S: t}
		case token.AND:
			// address of an addressable contract expression: &p.f, &s[i]
			return e.addrOf(n.X)
		}
		e.errf("unsupported unary operator %s", n.Op)
	case *ast.BinaryExpr:
		return e.binary(n)
	case *ast.StarExpr:
		p := e.eval(n.X)
		if p.K != KPtr {
			e.errf("dereference of non-pointer")
		}
		return e.load(ptrOf(p))
	case *ast.SelectorExpr:
		return e.selector(n)
	case *ast.IndexExpr:
		a := e.eval(n.X)
		i := e.typed(e.eval(n.Index), types.Typ[types.Int])
		iv := e.x.toIdx(e.st, i)
		e.trigger(iv)
		switch a.K {
		case KSlice:
			et := a.T.Underlying().(*types.Slice).Elem()
			return e.load(e.st.elemPtr(et, a.arr(), m.add(a.off(), iv)))
		case KString:
			return e.load(e.st.elemPtr(types.Typ[types.Uint8], a.arr(), m.add(a.off(), iv)))
		case KSeq:
			return &Val{T: types.Typ[types.Uint8], K: KInt, S: sel(a.S, m.add(a.Fs[0].S, iv), m.intSort(intInfo{8, false}))}
		case KPtr:
			if at, ok := deref(a.T).Underlying().(*types.Array); ok {
				return e.load(e.st.elemPtr(at.Elem(), a.S, iv))
			}
		}
		e.errf("cannot index %v", a.K)
	case *ast.SliceExpr:
		a := e.eval(n.X)
		lo := m.idxLit(0)
		if n.Low != nil {
			lo = e.x.toIdx(e.st, e.typed(e.eval(n.Low), types.Typ[types.Int]))
		}
		var hi Tm
		switch a.K {
		case KSlice, KString:
			hi = a.ln()
		case KSeq:
			hi = a.Fs[1].S
		default:
			e.errf("cannot slice %v", a.K)
		}
		if n.High != nil {
			hi = e.x.toIdx(e.st, e.typed(e.eval(n.High), types.Typ[types.Int]))
		}
		switch a.K {
		case KSlice:
			return e.x.mkSlice(a.T, a.arr(), m.add(a.off(), lo), m.sub(hi, lo), m.sub(a.cp(), lo))
		case KString:
			return e.x.mkString(a.T, a.arr(), m.add(a.off(), lo), m.sub(hi, lo))
		case KSeq:
			return &Val{K: KSeq, S: a.S, Fs: []*Val{scalar(nil, KInt, m.add(a.Fs[0].S, lo)), scalar(nil, KInt, m.sub(hi, lo))}}
		}
	case *ast.CallExpr:
		return e.call(n)
	}
	e.errf("unsupported expression form %T", ex)
	return nil
}

func (e *CEnv) addrOf(ex ast.Expr) *Val {
	switch n := ex.(type) {
	case *ast.ParenExpr:
		return e.addrOf(n.X)
	case *ast.SelectorExpr:
		base := e.eval(n.X)
		if base.K == KPtr {
			p := ptrOf(base)
			_, t := e.st.m.subLeaves(p.Root, p.Path)
			st, ok := t.Underlying().(*types.Struct)
			if ok {
				for i := 0; i < st.NumFields(); i++ {
					if st.Field(i).Name() == n.Sel.Name {
						return &Val{T: types.NewPointer(st.Field(i).Type()), K: KPtr, S: p.Base, P: p.withField(i)}
					}
				}
			}
		}
	case *ast.IndexExpr:
		a := e.eval(n.X)
		i := e.x.toIdx(e.st, e.typed(e.eval(n.Index), types.Typ[types.Int]))
		if a.K == KSlice {
			et := a.T.Underlying().(*types.Slice).Elem()
			return &Val{T: types.NewPointer(et), K: KPtr, S: a.arr(), P: e.st.elemPtr(et, a.arr(), e.st.m.add(a.off(), i))}
		}
	}
	e.errf("cannot take the address of this expression")
	return nil
}

func (e *CEnv) ident(name string) *Val {
	switch name {
	case "true":
		return boolVal(tTrue)
	case "false":
		return boolVal(tFalse)
	case "nil":
		return &Val{T: types.Typ[types.UntypedNil], K: KPtr, S: Tm{"0", SInt}}
	}
	if v, ok := e.bound[name]; ok {
		return v
	}
	if v, ok := e.vars[name]; ok {
		return v
	}
	if e.frame != nil {
		fd := e.st.F(e.frame)
		if v, ok := fd.names[name]; ok {
			return v
		}
		if p, ok := fd.allocs[name]; ok {
			return e.load(ptrOf(p))
		}
	}
	for _, fv := range e.freevars {
		if fv.name == name {
			// captured variables are held by reference
			if fv.val.K == KPtr {
				if _, isPtr := fv.val.T.Underlying().(*types.Pointer); isPtr {
					return e.load(ptrOf(fv.val))
				}
			}
			return fv.val
		}
	}
	// package level
	if v := e.pkgMember(e.pkg, name); v != nil {
		return v
	}
	// a clause of the function under contract evaluated inside a helper that is executed in place
	// (a loop that a refactoring moved into the helper): names of the enclosing frames are visible
	if e.frame != nil && e.frame.contract == nil {
		for p := e.frame.parent; p != nil; p = p.parent {
			fd := e.st.F(p)
			if v, ok := fd.names[name]; ok {
				return v
			}
			if q, ok := fd.allocs[name]; ok {
				return e.load(ptrOf(q))
			}
			if p.contract != nil {
				break
			}
		}
	}
	// a local the code has renamed: the contract's name for the k-th local variable of the function
	if cur := e.currentLocalName(name); cur != name {
		saved := e.contract
		e.contract = nil // no second indirection
		v := e.ident(cur)
		e.contract = saved
		return v
	}
	e.errf("unknown identifier %q", name)
	return nil
}

// currentLocalName maps the contract's name for a local variable ("locals" item: the function's
// locals in declaration order) to the name the code uses now.
func (e *CEnv) currentLocalName(name string) string {
	if e.contract == nil || len(e.contract.LocalNames) == 0 || e.specDepth != 0 {
		return name
	}
	fn := e.fn
	if e.frame != nil {
		fn = e.frame.fn
	}
	own := false
	for _, f := range e.x.ld.fnByKey[e.contract.Key] {
		own = own || f == fn
	}
	if fn == nil || !own {
		return name
	}
	cur := e.x.ld.localsOf(fn)
	if len(cur) != len(e.contract.LocalNames) {
		return name
	}
	for i, n := range e.contract.LocalNames {
		if n == name && cur[i] != name {
			return cur[i]
		}
	}
	return name
}

func (e *CEnv) findPkg(path string) *ssa.Package {
	for _, p := range e.x.prog.AllPackages() {
		if p.Pkg.Path() == path {
			return p
		}
	}
	return nil
}

// pkgByName resolves an import name as seen from the contract's package.
func (e *CEnv) pkgByName(name string) *ssa.Package {
	if cur := e.findPkg(e.pkg); cur != nil {
		for _, imp := range cur.Pkg.Imports() {
			if imp.Name() == name {
				return e.findPkg(imp.Path())
			}
		}
	}
	var found *ssa.Package
	for _, p := range e.x.prog.AllPackages() {
		if p.Pkg.Name() == name || p.Pkg.Path() == name {
			if found != nil && p.Pkg.Path() != name {
				continue
			}
			found = p
		}
	}
	return found
}

func (e *CEnv) pkgMember(pkgPath, name string) *Val {
	p := e.findPkg(pkgPath)
	if p == nil {
		return nil
	}
	mem := p.Members[name]
	switch mm := mem.(type) {
	case *ssa.NamedConst:
		c := mm.Value
		if c.Value != nil && c.Value.Kind() == constant.Int {
			v, _ := new(big.Int).SetString(c.Value.ExactString(), 10)
			if b, ok := c.Type().(*types.Basic); ok && b.Info()&types.IsUntyped != 0 {
				return e.intConst(v)
			}
			ii, _ := basicIntInfo(c.Type())
			return &Val{T: c.Type(), K: KInt, S: e.st.m.lit(v, ii), C: v}
		}
		if c.Value != nil && c.Value.Kind() == constant.Bool {
			return boolVal(boolTm(constant.BoolVal(c.Value)))
		}
		if c.Value != nil && c.Value.Kind() == constant.String {
			s := constant.StringVal(c.Value)
			return &Val{T: types.Typ[types.UntypedString], K: KString, Str: &s}
		}
	case *ssa.Global:
		gname := p.Pkg.Path() + "." + mm.Name()
		pt := mm.Type().(*types.Pointer)
		e.x.noteGlobal(gname, pt.Elem())
		return e.load(&Ptr{Kind: PGlobal, Glob: gname, Root: pt.Elem(), Base: Tm{"0", SInt}})
	}
	return nil
}

func (e *CEnv) selector(n *ast.SelectorExpr) *Val {
	if id, ok := n.X.(*ast.Ident); ok {
		// package-qualified name?
		if _, isVar := e.lookupMaybe(id.Name); !isVar {
			if p := e.pkgByName(id.Name); p != nil {
				if v := e.pkgMember(p.Pkg.Path(), n.Sel.Name); v != nil {
					return v
				}
				e.errf("unknown package member %s.%s", id.Name, n.Sel.Name)
			}
		}
	}
	base := e.eval(n.X)
	return e.field(base, n.Sel.Name)
}

func (e *CEnv) lookupMaybe(name string) (*Val, bool) {
	if v, ok := e.bound[name]; ok {
		return v, true
	}
	if v, ok := e.vars[name]; ok {
		return v, true
	}
	if e.frame != nil {
		fd := e.st.F(e.frame)
		if v, ok := fd.names[name]; ok {
			return v, true
		}
		if _, ok := fd.allocs[name]; ok {
			return nil, true
		}
	}
	for _, fv := range e.freevars {
		if fv.name == name {
			return fv.val, true
		}
	}
	return nil, false
}

func (e *CEnv) field(base *Val, name string) *Val {
	switch base.K {
	case KPtr:
		p := ptrOf(base)
		_, t := e.st.m.subLeaves(p.Root, p.Path)
		st, ok := t.Underlying().(*types.Struct)
		if !ok {
			e.errf("field %s of pointer to non-struct %s", name, t)
		}
		if path := fieldPath(st, name); path != nil {
			q := p
			for _, i := range path {
				q = q.withField(i)
			}
			return e.load(q)
		}
		e.errf("type %s has no field %s", t, name)
	case KStruct:
		st := base.T.Underlying().(*types.Struct)
		if path := fieldPath(st, name); path != nil {
			v := base
			for _, i := range path {
				v = v.Fs[i]
			}
			return v
		}
		e.errf("type %s has no field %s", base.T, name)
	}
	e.errf("selector .%s on value of kind %v", name, base.K)
	return nil
}

// fieldPath finds a (possibly promoted through embedded structs) field.
func fieldPath(st *types.Struct, name string) []int {
	for i := 0; i < st.NumFields(); i++ {
		if st.Field(i).Name() == name {
			return []int{i}
		}
	}
	for i := 0; i < st.NumFields(); i++ {
		f := st.Field(i)
		if f.Embedded() {
			if inner, ok := f.Type().Underlying().(*types.Struct); ok {
				if p := fieldPath(inner, name); p != nil {
					return append([]int{i}, p...)
				}
			}
		}
	}
	return nil
}

var tokenLE = token.LEQ

func (e *CEnv) binary(n *ast.BinaryExpr) *Val {
	m := e.st.m
	switch n.Op {
	case token.LAND:
		l := e.eval(n.X)
		if l.S.S == "false" {
			return l // short circuit: the right operand may not be evaluable
		}
		return boolVal(and(l.S, e.eval(n.Y).S))
	case token.LOR:
		l := e.eval(n.X)
		if l.S.S == "true" {
			return l
		}
		return boolVal(or(l.S, e.eval(n.Y).S))
	}
	sube := e
	if n.Op == token.EQL || n.Op == token.NEQ {
		sube = e.withPol(0)
	}
	a, b := sube.eval(n.X), sube.eval(n.Y)
	// constant folding
	if a.C != nil && b.C != nil {
		r := new(big.Int)
		switch n.Op {
		case token.ADD:
			return e.intConst(r.Add(a.C, b.C))
		case token.SUB:
			return e.intConst(r.Sub(a.C, b.C))
		case token.MUL:
			return e.intConst(r.Mul(a.C, b.C))
		case token.QUO:
			return e.intConst(r.Quo(a.C, b.C))
		case token.REM:
			return e.intConst(r.Rem(a.C, b.C))
		case token.SHL:
			return e.intConst(r.Lsh(a.C, uint(b.C.Int64())))
		case token.SHR:
			return e.intConst(r.Rsh(a.C, uint(b.C.Int64())))
		case token.EQL:
			return boolVal(boolTm(a.C.Cmp(b.C) == 0))
		case token.NEQ:
			return boolVal(boolTm(a.C.Cmp(b.C) != 0))
		case token.LSS:
			return boolVal(boolTm(a.C.Cmp(b.C) < 0))
		case token.LEQ:
			return boolVal(boolTm(a.C.Cmp(b.C) <= 0))
		case token.GTR:
			return boolVal(boolTm(a.C.Cmp(b.C) > 0))
		case token.GEQ:
			return boolVal(boolTm(a.C.Cmp(b.C) >= 0))
		}
	}
	if a.K == KInt && b.K == KInt {
		if a.C != nil && b.C == nil && n.Op != token.SHL && n.Op != token.SHR {
			a = e.typed(a, b.T)
		} else if b.C != nil && a.C == nil {
			if n.Op == token.SHL || n.Op == token.SHR {
				b = e.typed(b, types.Typ[types.Uint64])
				if !m.BV {
					b = &Val{T: b.T, K: KInt, S: Tm{b.C.String(), SInt}, C: b.C}
				}
			} else {
				b = e.typed(b, a.T)
			}
		}
	}
	switch n.Op {
	case token.EQL, token.NEQ:
		var t Tm
		switch {
		case a.Str != nil && b.Str != nil:
			t = boolTm(*a.Str == *b.Str)
		case isUntypedNil(b):
			t = isNilTm(a)
		case isUntypedNil(a):
			t = isNilTm(b)
		case a.K == KIface && b.K == KIface:
			t = and(eq(a.ityp(), b.ityp()), eq(a.ival(), b.ival()))
		case a.K == KPtr && b.K == KPtr:
			t = eq(e.ptrTerm(a), e.ptrTerm(b))
		case a.K == KPtr && b.K == KIface:
			t = eq(e.ptrTerm(a), b.ival())
		case a.K == KIface && b.K == KPtr:
			t = eq(a.ival(), e.ptrTerm(b))
		case a.K == KSeq || b.K == KSeq:
			e.errf("use seqeq to compare sequences")
		default:
			t = valEq(a, b)
		}
		if n.Op == token.NEQ {
			t = not(t)
		}
		return boolVal(t)
	case token.LSS, token.LEQ, token.GTR, token.GEQ:
		if a.K != KInt || b.K != KInt {
			e.errf("ordered comparison of non-integers")
		}
		return boolVal(m.cmp(n.Op, a.S, b.S, e.intInfoOf(a)))
	}
	if a.K == KBool && b.K == KBool {
		switch n.Op {
		case token.AND:
			return boolVal(and(a.S, b.S))
		case token.OR:
			return boolVal(or(a.S, b.S))
		}
	}
	if a.K != KInt || b.K != KInt {
		e.errf("arithmetic on non-integers (%v %s %v)", a.K, n.Op, b.K)
	}
	ii := e.intInfoOf(a)
	if a.C != nil && (n.Op == token.SHL || n.Op == token.SHR) {
		a = e.typed(a, types.Typ[types.Int])
	}
	// contract arithmetic: mathematical in int mode (no overflow obligations), exact machine arithmetic in bv mode
	res, _, _, ok := m.arith(n.Op, a.S, b.S, ii, e.intInfoOf(b))
	if !ok {
		e.errf("operator %s not supported in mode %s", n.Op, m)
	}
	return &Val{T: a.T, K: KInt, S: res}
}

func (e *CEnv) ptrTerm(v *Val) Tm {
	if v.P != nil && (v.P.Kind == PElem || len(v.P.Path) > 0) {
		e.x.declAddrUFs(e.st.m)
		f := v.P.addrFacts(e.st.m)
		if e.sides != nil {
			*e.sides = append(*e.sides, f)
		} else {
			e.st.assume(f)
		}
		return v.P.addrTerm(e.st.m)
	}
	return v.S
}

func isUntypedNil(v *Val) bool {
	b, ok := v.T.(*types.Basic)
	return ok && b.Kind() == types.UntypedNil
}

// ---------------------------------------------------------------------------
// calls: builtins, conversions, special forms, spec functions, ghosts

func (e *CEnv) args(n *ast.CallExpr, want int, name string) []*Val {
	if len(n.Args) != want {
		e.errf("%s expects %d arguments, got %d", name, want, len(n.Args))
	}
	out := make([]*Val, want)
	for i, a := range n.Args {
		out[i] = e.eval(a)
	}
	return out
}

func (e *CEnv) intArg(ex ast.Expr) int {
	v := e.eval(ex)
	if v.C == nil {
		e.errf("argument must be an integer constant")
	}
	return int(v.C.Int64())
}

func (e *CEnv) strArg(ex ast.Expr) string {
	v := e.eval(ex)
	if v.Str == nil {
		e.errf("argument must be a string constant")
	}
	return *v.Str
}

func (e *CEnv) event(k int) *Event {
	i := e.traceBase + k
	if k < 0 || i >= len(e.st.trace) {
		return nil
	}
	return &e.st.trace[i]
}

func (e *CEnv) call(n *ast.CallExpr) *Val {
	m := e.st.m
	st := e.st
	// conversions / type expressions as Fun
	var fname string
	switch f := n.Fun.(type) {
	case *ast.Ident:
		fname = f.Name
	case *ast.SelectorExpr:
		if id, ok := f.X.(*ast.Ident); ok {
			fname = id.Name + "." + f.Sel.Name
		}
	case *ast.ArrayType, *ast.StarExpr, *ast.ParenExpr:
		fname = "<type>"
	}
	switch fname {
	case "len":
		a := e.args(n, 1, "len")[0]
		switch a.K {
		case KSlice, KString:
			return &Val{T: types.Typ[types.Int], K: KInt, S: a.ln()}
		case KSeq:
			return &Val{T: types.Typ[types.Int], K: KInt, S: a.Fs[1].S}
		case KChan:
			return e.x.chanLenIn(st, e.view(), a)
		}
		e.errf("len of %v", a.K)
	case "cap":
		a := e.args(n, 1, "cap")[0]
		switch a.K {
		case KSlice:
			return &Val{T: types.Typ[types.Int], K: KInt, S: a.cp()}
		case KChan:
			return e.x.chanCap(st, a)
		}
		e.errf("cap of %v", a.K)
	case "int", "int64", "int32", "int16", "int8", "uint", "uint64", "uint32", "uint16", "uint8", "byte", "uintptr":
		a := e.args(n, 1, fname)[0]
		t := types.Universe.Lookup(fname).Type()
		ti, _ := basicIntInfo(t)
		if a.C != nil {
			return e.typed(a, t)
		}
		return &Val{T: t, K: KInt, S: m.convert(a.S, e.intInfoOf(a), ti)}
	case "implies":
		if len(n.Args) != 2 {
			e.errf("implies expects 2 arguments")
		}
		a0 := e.withPol(-e.pol).eval(n.Args[0])
		if a0.S.S == "false" {
			return boolVal(tTrue) // the consequent may not be evaluable (e.g. speaks about an event that was not emitted)
		}
		// the consequent may speak about things that do not exist on this path (an event that was
		// not emitted) although the antecedent is not syntactically false: then the implication
		// can only hold through its antecedent
		cons, ok := e.tryEval(n.Args[1])
		if !ok {
			switch {
			case e.pol < 0:
				return boolVal(not(a0.S))
			case e.pol > 0:
				return boolVal(tTrue)
			}
			cons = e.eval(n.Args[1]) // unknown polarity: report the error
		}
		return boolVal(implies(a0.S, cons.S))
	case "iff":
		a := e.withPol(0).args(n, 2, "iff")
		return boolVal(eq(a[0].S, a[1].S))
	case "ite":
		a := e.withPol(0).args(n, 3, "ite")
		x1, x2 := a[1], a[2]
		if x1.C != nil && x2.C == nil {
			x1 = e.typed(x1, x2.T)
		} else if x2.C != nil && x1.C == nil {
			x2 = e.typed(x2, x1.T)
		} else if x1.C != nil && x2.C != nil {
			x1, x2 = e.typed(x1, types.Typ[types.Int]), e.typed(x2, types.Typ[types.Int])
		}
		f1, f2 := x1.flatten(), x2.flatten()
		out := make([]Tm, len(f1))
		for i := range f1 {
			out[i] = ite(a[0].S, f1[i], f2[i])
		}
		if x1.K == KSeq {
			return &Val{K: KSeq, S: out[0], Fs: []*Val{scalar(nil, KInt, out[1]), scalar(nil, KInt, out[2])}}
		}
		return m.build(x1.T, out)
	case "old":
		if len(n.Args) != 1 {
			e.errf("old expects one argument")
		}
		sub := *e
		sub.inOld = true
		return sub.eval(n.Args[0])
	case "forall", "exists":
		// optional 5th argument: a term over i used as the instantiation pattern of an assumed
		// universal instead of the generic trigger predicate, e.g. forall(i, 0, n, P, g(i))
		if len(n.Args) != 4 && !(len(n.Args) == 5 && fname == "forall") {
			e.errf("%s(i, lo, hi, P) expects 4 arguments", fname)
		}
		id, ok := n.Args[0].(*ast.Ident)
		if !ok {
			e.errf("%s: first argument must be an identifier", fname)
		}
		lo := e.x.toIdx(st, e.typed(e.withPol(0).eval(n.Args[1]), types.Typ[types.Int]))
		hi := e.x.toIdx(st, e.typed(e.withPol(0).eval(n.Args[2]), types.Typ[types.Int]))
		universal := fname == "forall"
		top := e.sides == nil && !e.inOld || (e.sides == nil)
		e.trigger(lo)
		e.trigger(hi)
		// Skolemisation by the generator (keeps goals quantifier-free and lets the skolem
		// constant trigger the quantified hypotheses): a universal to be proved or an
		// existential that is assumed becomes a fresh constant.
		if top && ((universal && e.pol < 0) || (!universal && e.pol > 0)) {
			sk := st.declare("sk."+id.Name, m.idx())
			sub := e.sub()
			sub.bound[id.Name] = &Val{T: types.Typ[types.Int], K: KInt, S: sk}
			e.trigger(sk)
			body := sub.eval(n.Args[3])
			rng := and(m.le(lo, sk), m.lt(sk, hi))
			if universal {
				return boolVal(implies(rng, body.S))
			}
			return boolVal(and(rng, body.S))
		}
		// An existential to be proved: try every ground index term seen so far as a witness.
		if top && !universal && e.pol < 0 {
			var alts []Tm
			cands := append([]Tm{lo, m.sub(hi, m.idxLit(1))}, st.trTerms(m.idx())...)
			seen := map[string]bool{}
			for _, cnd := range cands {
				if seen[cnd.S] {
					continue
				}
				seen[cnd.S] = true
				sub := e.sub()
				sub.bound[id.Name] = &Val{T: types.Typ[types.Int], K: KInt, S: cnd}
				body := sub.eval(n.Args[3])
				alts = append(alts, and(m.le(lo, cnd), m.lt(cnd, hi), body.S))
				if len(alts) >= 24 {
					break
				}
			}
			return boolVal(or(alts...))
		}
		sub := e.sub()
		bn := freshName(id.Name)
		bv := &Val{T: types.Typ[types.Int], K: KInt, S: Tm{bn, m.idx()}}
		sub.bindQ(id.Name, bv)
		var sides []Tm
		sub.sides = &sides
		body := sub.eval(n.Args[3])
		rng := and(m.le(lo, bv.S), m.lt(bv.S, hi))
		if universal {
			pat := fmt.Sprintf("(%s %s)", e.x.trUF(m.idx()), bn)
			if len(n.Args) == 5 {
				var psides []Tm
				psub := *sub
				psub.sides = &psides
				pv := psub.eval(n.Args[4])
				if pv.K == KInt || pv.K == KBool || pv.K == KPtr {
					pat = pv.S.S
				}
			}
			return boolVal(mkForallP(fmt.Sprintf("(%s %s)", bn, m.idx()), []string{pat}, e.quantBody(rng, sides, body.S, true)))
		}
		return boolVal(tm(SBool, "(exists ((%s %s)) %s)", bn, m.idx(), e.quantBody(rng, sides, body.S, false).S))
	case "forallint":
		if len(n.Args) != 2 {
			e.errf("forallint(i, P) expects 2 arguments")
		}
		id := n.Args[0].(*ast.Ident)
		if e.sides == nil && e.pol < 0 {
			sk := st.declare("sk."+id.Name, m.idx())
			sub := e.sub()
			sub.bound[id.Name] = &Val{T: types.Typ[types.Int], K: KInt, S: sk}
			e.trigger(sk)
			return boolVal(sub.eval(n.Args[1]).S)
		}
		sub := e.sub()
		bn := freshName(id.Name)
		sub.bindQ(id.Name, &Val{T: types.Typ[types.Int], K: KInt, S: Tm{bn, m.idx()}})
		var sides []Tm
		sub.sides = &sides
		body := sub.eval(n.Args[1])
		return boolVal(mkForallP(fmt.Sprintf("(%s %s)", bn, m.idx()), []string{fmt.Sprintf("(%s %s)", e.x.trUF(m.idx()), bn)}, e.quantBody(tTrue, sides, body.S, true)))
	case "forallv":
		// forallv(x, T, P): for all values x of Go type T
		if len(n.Args) != 3 {
			e.errf("forallv(x, T, P) expects 3 arguments")
		}
		id := n.Args[0].(*ast.Ident)
		t := e.resolveT(n.Args[1])
		ls := m.leaves(t)
		if e.sides == nil && e.pol < 0 {
			sv := st.freshVal("sk."+id.Name, t)
			sub := e.sub()
			sub.bound[id.Name] = sv
			if sv.K == KPtr {
				e.triggerRef(sv.S)
			}
			return boolVal(sub.eval(n.Args[2]).S)
		}
		sub := e.sub()
		ts := make([]Tm, len(ls))
		var bvs []string
		var pats []string
		for i, l := range ls {
			bn := freshName(id.Name)
			ts[i] = Tm{bn, l.sort}
			bvs = append(bvs, fmt.Sprintf("(%s %s)", bn, l.sort))
			if len(ls) == 1 && l.sort == SInt && kindOf(t) == KPtr {
				pats = append(pats, fmt.Sprintf("(%s %s)", e.x.trRefUF(), bn))
			}
		}
		sub.bindQ(id.Name, m.build(t, ts))
		var sides []Tm
		sub.sides = &sides
		body := sub.eval(n.Args[2])
		return boolVal(mkForallP(strings.Join(bvs, " "), pats, e.quantBody(tTrue, sides, body.S, true)))
	case "bytype":
		// bytype(x, "T1", e1, "T2", e2, ...): static dispatch on the Go type of x
		if len(n.Args) < 3 || len(n.Args)%2 != 1 {
			e.errf("bytype(x, T1, e1, ...)")
		}
		xv := e.eval(n.Args[0])
		if xv.T == nil {
			e.errf("bytype: value has no static type")
		}
		have := types.TypeString(xv.T, func(p *types.Package) string { return p.Name() })
		for i := 1; i+1 < len(n.Args); i += 2 {
			if e.strArg(n.Args[i]) == have {
				return e.eval(n.Args[i+1])
			}
		}
		e.errf("bytype: no case for type %s", have)
	case "captured":
		// captured(f, "Fn$1", "name"): f is a closure of the named anonymous function and the
		// result is the current value of its captured variable `name`
		if len(n.Args) != 3 {
			e.errf("captured(f, fn, name)")
		}
		fv := e.eval(n.Args[0])
		fname := e.strArg(n.Args[1])
		vname := e.strArg(n.Args[2])
		if fv.Cl == nil || fv.Cl.Fn == nil || !strings.HasSuffix(fv.Cl.Fn.Name(), fname) {
			e.errf("captured: the value is not a closure of %s", fname)
		}
		for i, v := range fv.Cl.Fn.FreeVars {
			if v.Name() == vname && i < len(fv.Cl.Binds) {
				b := fv.Cl.Binds[i]
				if b.K == KPtr {
					if _, isPtr := b.T.Underlying().(*types.Pointer); isPtr {
						return e.load(ptrOf(b))
					}
				}
				return b
			}
		}
		e.errf("captured: %s does not capture %s", fname, vname)
	case "called", "callres", "notcalled":
		// called("callee"): the (single) call site of that callee in this function was executed on
		// this path; callres("callee", i): its i-th result. For calls that are not trace events
		// (e.g. io.Reader.Read): lets a post relate the function's results to the callee's.
		if e.frame == nil || (fname != "callres" && len(n.Args) != 1) || (fname == "callres" && len(n.Args) != 2) {
			e.errf("%s: bad use", fname)
		}
		want := e.strArg(n.Args[0])
		var site *ssa.Call
		for _, b := range e.frame.fn.Blocks {
			for _, in := range b.Instrs {
				c, ok := in.(*ssa.Call)
				if !ok {
					continue
				}
				var name string
				if c.Call.IsInvoke() {
					name = strings.TrimPrefix(ifaceMethodKey(c.Call.Method), "iface:")
				} else if sc := c.Call.StaticCallee(); sc != nil {
					name = fnKey(sc)
				} else {
					name = c.Call.Value.Name()
				}
				if name == want || strings.HasSuffix(name, "."+want) || strings.HasSuffix(name, want) {
					if site != nil {
						e.errf("%s: more than one call site of %s", fname, want)
					}
					site = c
				}
			}
		}
		var got *Val
		if site != nil {
			got = e.st.F(e.frame).vals[site]
		}
		if fname == "called" || fname == "notcalled" {
			if (got != nil) == (fname == "called") {
				return boolVal(tTrue)
			}
			return boolVal(tFalse)
		}
		if got == nil {
			e.errf("callres: %s was not called on this path", want)
		}
		idx := int(e.intArg(n.Args[1]))
		if got.K == KTuple {
			if idx < 0 || idx >= len(got.Fs) {
				e.errf("callres: %s has %d results", want, len(got.Fs))
			}
			return got.Fs[idx]
		}
		return got
	case "isbound":
		// isbound(f, "method", recv): f is the method value recv.method
		if len(n.Args) != 3 {
			e.errf("isbound(f, name, recv)")
		}
		fv := e.eval(n.Args[0])
		name := e.strArg(n.Args[1])
		rv := e.eval(n.Args[2])
		if fv.Cl == nil || fv.Cl.Fn == nil || len(fv.Cl.Binds) != 1 || !strings.HasSuffix(fv.Cl.Fn.Name(), "$bound") {
			return boolVal(tFalse)
		}
		// (the name the contracts know the method by: a renamed unexported method keeps its old key)
		if !strings.HasSuffix(strings.TrimSuffix(fv.Cl.Fn.Name(), "$bound"), name) && !strings.HasSuffix(strings.TrimSuffix(fnKey(fv.Cl.Fn), "$bound"), "."+name) {
			return boolVal(tFalse)
		}
		return boolVal(eq(e.ptrTerm(fv.Cl.Binds[0]), e.ptrTerm(rv)))
	case "sameslice":
		a := e.args(n, 2, "sameslice")
		if (a[0].K != KSlice && a[0].K != KString) || a[0].K != a[1].K {
			e.errf("sameslice of %v and %v", a[0].K, a[1].K)
		}
		return boolVal(and(eq(a[0].arr(), a[1].arr()), eq(a[0].off(), a[1].off()), eq(a[0].ln(), a[1].ln())))
	case "statictypeid":
		xv := e.args(n, 1, "statictypeid")[0]
		if xv.T == nil {
			e.errf("statictypeid: value has no static type")
		}
		return &Val{T: types.Typ[types.UnsafePointer], K: KPtr, S: Tm{fmt.Sprint(e.x.typeID(xv.T)), SInt}}
	case "typeid":
		t := e.resolveT(n.Args[0])
		return &Val{T: types.Typ[types.UnsafePointer], K: KPtr, S: Tm{fmt.Sprint(e.x.typeID(t)), SInt}}
	case "forallref":
		// forallref(x, P): for all references x
		if len(n.Args) != 2 {
			e.errf("forallref(x, P) expects 2 arguments")
		}
		id := n.Args[0].(*ast.Ident)
		if e.sides == nil && e.pol < 0 {
			sk := st.declare("sk."+id.Name, SInt)
			sub := e.sub()
			sub.bound[id.Name] = &Val{T: types.Typ[types.UnsafePointer], K: KPtr, S: sk}
			e.triggerRef(sk)
			return boolVal(sub.eval(n.Args[1]).S)
		}
		sub := e.sub()
		bn := freshName(id.Name)
		sub.bindQ(id.Name, &Val{T: types.Typ[types.UnsafePointer], K: KPtr, S: Tm{bn, SInt}})
		var sides []Tm
		sub.sides = &sides
		body := sub.eval(n.Args[1])
		return boolVal(mkForallP(fmt.Sprintf("(%s Int)", bn), []string{fmt.Sprintf("(%s %s)", e.x.trRefUF(), bn)}, e.quantBody(tTrue, sides, body.S, true)))
	case "panicked":
		return boolVal(boolTm(e.panicked))
	case "panicval":
		if e.panicVal == nil {
			return m.zero(types.NewInterfaceType(nil, nil))
		}
		return e.panicVal
	case "is", "as":
		if len(n.Args) != 2 {
			e.errf("%s(x, T) expects 2 arguments", fname)
		}
		xv := e.eval(n.Args[0])
		t := e.x.resolveTypeExpr(e.pkg, n.Args[1])
		ok, val := e.x.typeTest(st, xv, t)
		if fname == "is" {
			return boolVal(ok)
		}
		return val
	case "typeof":
		xv := e.args(n, 1, "typeof")[0]
		return &Val{T: types.Typ[types.UnsafePointer], K: KPtr, S: xv.ityp()}
	case "content":
		a := e.args(n, 1, "content")[0]
		return e.content(a)
	case "seqeq":
		a := e.args(n, 2, "seqeq")
		return boolVal(e.seqEq(e.toSeq(a[0]), e.toSeq(a[1])))
	case "samearray":
		// samearray(a, b): the whole backing arrays of two byte sequences hold the same bytes
		// (array equality, no quantifier): with old(), "this backing array was not written"
		a := e.args(n, 2, "samearray")
		s1, s2 := e.toSeq(a[0]), e.toSeq(a[1])
		return boolVal(and(eq(s1.S, s2.S), eq(s1.Fs[0].S, s2.Fs[0].S), eq(s1.Fs[1].S, s2.Fs[1].S)))
	case "uvval", "uvlen":
		// value / length of the uvarint at the start of a byte sequence (uninterpreted)
		a := e.args(n, 1, fname)[0]
		s0 := e.toSeq(a)
		uf := fname + "_" + m.String()
		if fname == "uvval" {
			e.x.declUF(uf, fmt.Sprintf("(declare-fun %s (%s %s) %s)", uf, s0.S.Sort, m.idx(), m.intSort(intInfo{64, false})))
			return &Val{T: types.Typ[types.Uint64], K: KInt, S: tm(m.intSort(intInfo{64, false}), "(%s %s %s)", uf, s0.S.S, s0.Fs[0].S.S)}
		}
		e.x.declUF(uf, fmt.Sprintf("(declare-fun %s (%s %s) %s)", uf, s0.S.Sort, m.idx(), m.idx()))
		return &Val{T: types.Typ[types.Int], K: KInt, S: tm(m.idx(), "(%s %s %s)", uf, s0.S.S, s0.Fs[0].S.S)}
	case "fieldval":
		// fieldval(order, w, s): value of the w-byte integer field at the start of s in byte order 'order'
		a := e.args(n, 3, "fieldval")
		s0 := e.toSeq(a[2])
		w := e.typed(a[1], types.Typ[types.Int])
		if a[0].K != KIface {
			e.errf("fieldval: byte order must be an interface value")
		}
		uf := "fieldval_" + m.String()
		rs := m.intSort(intInfo{64, false})
		bs := m.intSort(intInfo{8, false})
		// the field's bytes are passed one by one (bytes beyond the width as 0): equal bytes give
		// equal values by congruence, whichever array they live in
		var sorts, argv []string
		for k := 0; k < 8; k++ {
			sorts = append(sorts, string(bs))
			kk := m.idxLit(int64(k))
			b := ite(m.lt(kk, w.S), sel(s0.S, m.add(s0.Fs[0].S, kk), bs), zeroOf(bs))
			argv = append(argv, b.S)
		}
		e.x.declUF(uf, fmt.Sprintf("(declare-fun %s (Int Int %s %s) %s)", uf, m.idx(), strings.Join(sorts, " "), rs))
		return &Val{T: types.Typ[types.Uint64], K: KInt, S: tm(rs, "(%s %s %s %s %s)", uf, a[0].ityp().S, a[0].ival().S, w.S.S, strings.Join(argv, " "))}
	case "subseq":
		// subseq(s, lo, n): the n elements of s starting at lo
		a := e.args(n, 3, "subseq")
		s0 := e.toSeq(a[0])
		lo := e.x.toIdx(st, e.typed(a[1], types.Typ[types.Int]))
		ln := e.x.toIdx(st, e.typed(a[2], types.Typ[types.Int]))
		// the first few positions of a sub-sequence are index terms (fixed-width fields are read from them)
		// (not inside a quantifier: the offset may mention the bound variable)
		for k := int64(0); k < 8 && len(e.qvars) == 0; k += 1 {
			e.trigger(st.define("ss", m.add(lo, m.idxLit(k))))
		}
		return &Val{K: KSeq, S: s0.S, Fs: []*Val{scalar(nil, KInt, m.add(s0.Fs[0].S, lo)), scalar(nil, KInt, ln)}}
	case "seqcat":
		// seqcat(r, a, b): r == a ++ b
		a := e.args(n, 3, "seqcat")
		r, s1, s2 := e.toSeq(a[0]), e.toSeq(a[1]), e.toSeq(a[2])
		l1, l2 := s1.Fs[1].S, s2.Fs[1].S
		pre := &Val{K: KSeq, S: r.S, Fs: []*Val{r.Fs[0], scalar(nil, KInt, l1)}}
		suf := &Val{K: KSeq, S: r.S, Fs: []*Val{scalar(nil, KInt, m.add(r.Fs[0].S, l1)), scalar(nil, KInt, l2)}}
		return boolVal(and(eq(r.Fs[1].S, m.add(l1, l2)), e.seqEq(pre, s1), e.seqEq(suf, s2)))
	case "nemitted":
		return e.intConst(big.NewInt(int64(len(st.trace) - e.traceBase)))
	case "count":
		// count("Short"): number of events of this call whose callee is Short
		name := e.strArg(n.Args[0])
		k := 0
		for i := e.traceBase; i < len(st.trace); i++ {
			ev := &st.trace[i]
			if evMatches(ev, name) {
				k++
			}
		}
		return e.intConst(big.NewInt(int64(k)))
	case "first", "last":
		// first("Short") / last("Short"): index (within this call's events) of the first / last event named Short, or -1
		name := e.strArg(n.Args[0])
		idx := -1
		for i := e.traceBase; i < len(st.trace); i++ {
			ev := &st.trace[i]
			if evMatches(ev, name) {
				idx = i - e.traceBase
				if fname == "first" {
					break
				}
			}
		}
		return e.intConst(big.NewInt(int64(idx)))
	case "evis":
		// evis(k, "Short") : the k-th event of this call is a call of Short
		if len(n.Args) != 2 {
			e.errf("evis(k, name)")
		}
		ev := e.event(e.intArg(n.Args[0]))
		name := e.strArg(n.Args[1])
		if ev == nil {
			return boolVal(tFalse)
		}
		return boolVal(boolTm(evMatches(ev, name)))
	case "evarg", "evres":
		if len(n.Args) != 2 {
			e.errf("%s(k, j)", fname)
		}
		ev := e.event(e.intArg(n.Args[0]))
		j := e.intArg(n.Args[1])
		if ev == nil {
			e.errf("%s: no event %d on this path (guard with nemitted())", fname, e.intArg(n.Args[0]))
		}
		list := ev.Args
		if fname == "evres" {
			list = ev.Res
		}
		if j < 0 || j >= len(list) {
			e.errf("%s: event %s has %d values", fname, ev.Short, len(list))
		}
		return list[j]
	case "evrecv":
		ev := e.event(e.intArg(n.Args[0]))
		if ev == nil || ev.Recv == nil {
			e.errf("evrecv: no such event / receiver")
		}
		return ev.Recv
	case "atheader":
		// atheader(v): in a loop invariant checked at a back edge, the value the loop-carried local v
		// had at the start of the iteration; on loop entry (no iteration yet) the current value
		if len(n.Args) != 1 {
			e.errf("atheader(v)")
		}
		id, ok := n.Args[0].(*ast.Ident)
		if !ok {
			e.errf("atheader wants a local variable")
		}
		if e.atHeader != nil {
			if v, ok := e.atHeader[id.Name]; ok {
				return v
			}
			if v, ok := e.atHeader[e.currentLocalName(id.Name)]; ok {
				return v
			}
			e.errf("atheader: %s is not carried by this loop", id.Name)
		}
		return e.eval(n.Args[0])
	case "at":
		// at(k, e): evaluate e in the heap as it was when event k was emitted
		if len(n.Args) != 2 {
			e.errf("at(k, e)")
		}
		ev := e.event(e.intArg(n.Args[0]))
		if ev == nil {
			e.errf("at: no event")
		}
		sub := *e
		sub.curHeap = ev.Heap
		sub.inOld = false
		return sub.eval(n.Args[1])
	case "fresh":
		a := e.args(n, 1, "fresh")[0]
		ref := a.S
		if a.K == KSlice || a.K == KString {
			ref = a.arr()
		} else if a.K == KIface {
			ref = a.ival()
		}
		base := e.allocBefore
		if base.S == "" {
			base = Tm{"0", SInt}
		}
		return boolVal(tm(SBool, "(> %s %s)", ref.S, base.S))
	case "addr":
		a := e.args(n, 1, "addr")[0]
		if a.K != KPtr {
			e.errf("addr of non-pointer")
		}
		return &Val{T: types.Typ[types.UnsafePointer], K: KPtr, S: e.ptrTerm(a)}
	case "arrof":
		a := e.args(n, 1, "arrof")[0]
		return &Val{T: types.Typ[types.UnsafePointer], K: KPtr, S: a.arr()}
	case "min", "max":
		a := e.args(n, 2, fname)
		x1, x2 := a[0], a[1]
		if x1.C != nil {
			x1 = e.typed(x1, x2.T)
		}
		if x2.C != nil {
			x2 = e.typed(x2, x1.T)
		}
		c := m.cmp(token.LEQ, x1.S, x2.S, e.intInfoOf(x1))
		if fname == "min" {
			return &Val{T: x1.T, K: KInt, S: ite(c, x1.S, x2.S)}
		}
		return &Val{T: x1.T, K: KInt, S: ite(c, x2.S, x1.S)}
	case "impl":
		// impl(x, I): dynamic type of x implements interface I
		xv := e.eval(n.Args[0])
		t := e.x.resolveTypeExpr(e.pkg, n.Args[1])
		ok, _ := e.x.typeTest(st, xv, t)
		return boolVal(ok)
	case "gstore1", "gstore2", "gsame":
		return e.ghostUpdate(fname, n)
	case "held":
		// held("lockname-expr")
		a := e.args(n, 1, "held")[0]
		return boolVal(boolTm(e.x.lockHeld(st, e.ptrTerm(a).S)))
	}
	if fname == "<type>" {
		t := e.x.resolveTypeExpr(e.pkg, n.Fun)
		a := e.args(n, 1, "conversion")[0]
		_ = t
		return a
	}
	// call of a func-typed parameter the contract declares pure
	if e.contract != nil && e.contract.PureParams[fname] {
		if fv, ok := e.lookupMaybe(fname); ok && fv != nil && fv.K == KFunc {
			if sig, ok := fv.T.Underlying().(*types.Signature); ok && e.fn != nil {
				var args []*Val
				for _, a := range n.Args {
					args = append(args, e.eval(a))
				}
				r := e.x.pureParamApp(st, e.fn, fname, fv, args, sig)
				if len(r) == 1 {
					return r[0]
				}
			}
		}
	}
	// spec function? (a package qualifier is accepted and ignored: spec names are global)
	bare := fname
	if i := strings.LastIndex(fname, "."); i >= 0 {
		bare = fname[i+1:]
	}
	if sf, ok := e.x.cs.Specs[fname]; ok {
		return e.applySpec(sf, n)
	}
	if sf, ok := e.x.cs.Specs[bare]; ok && bare != fname {
		if _, isVar := e.lookupMaybe(fname[:strings.LastIndex(fname, ".")]); !isVar {
			return e.applySpec(sf, n)
		}
	}
	if gd, ok := e.x.cs.Ghosts[fname]; ok {
		return e.ghostApp(gd, n)
	}
	if pc, fn := e.pureFunc(fname); pc != nil {
		var args []*Val
		for i, a := range n.Args {
			v := e.eval(a)
			if v.C != nil && i < len(fn.Params) {
				v = e.typed(v, fn.Params[i].Type())
			}
			args = append(args, v)
		}
		v, fact := e.x.pureAppFact(e.st, pc, fn, args)
		if e.sides != nil {
			*e.sides = append(*e.sides, fact)
		} else {
			e.st.assume(fact)
		}
		return v
	}
	e.errf("unknown function %q in contract expression", fname)
	return nil
}

// resolveT resolves a type expression; type parameter names of the function
// under verification resolve to the instance's type arguments.
func (e *CEnv) resolveT(ex ast.Expr) types.Type {
	if id, ok := ex.(*ast.Ident); ok && (e.x.curFn != nil || e.x.tscope != nil) {
		fn := e.x.curFn
		if e.x.tscope != nil {
			fn = e.x.tscope
		}
		if o := fn.Origin(); o != nil {
			tps := o.TypeParams()
			for i := 0; i < tps.Len(); i++ {
				if tps.At(i).Obj().Name() == id.Name && i < len(fn.TypeArgs()) {
					return fn.TypeArgs()[i]
				}
			}
		}
	}
	return e.x.resolveTypeExpr(e.pkg, ex)
}

// pureFunc finds a function with a 'pure' contract by (possibly package-qualified) name.
func (e *CEnv) pureFunc(name string) (*Contract, *ssa.Function) {
	pkg := e.pkg
	short := name
	if i := strings.Index(name, "."); i >= 0 {
		if p := e.pkgByName(name[:i]); p != nil {
			pkg = p.Pkg.Path()
			short = name[i+1:]
		}
	}
	key := pkg + "." + short
	c := e.x.cs.Funcs[key]
	if c == nil || !c.Pure {
		return nil, nil
	}
	for _, p := range e.x.prog.AllPackages() {
		if p.Pkg.Path() == pkg {
			if fn := p.Func(short); fn != nil {
				return c, fn
			}
		}
	}
	return nil, nil
}

func (e *CEnv) applySpec(sf *SpecFunc, n *ast.CallExpr) *Val {
	if len(n.Args) != len(sf.Params) {
		e.errf("spec func %s expects %d arguments", sf.Name, len(sf.Params))
	}
	if e.specDepth > 12 {
		e.errf("spec func recursion too deep at %s", sf.Name)
	}
	sub := &CEnv{x: e.x, st: e.st, vars: map[string]*Val{}, bound: map[string]*Val{}, pkg: sf.Pkg, contract: e.contract,
		oldHeap: e.oldHeap, curHeap: e.curHeap, inOld: e.inOld, traceBase: e.traceBase, specDepth: e.specDepth + 1, allocBefore: e.allocBefore, sides: e.sides, noPure: e.noPure, pol: e.pol, qvars: e.qvars}
	if sf.Pkg == "" {
		sub.pkg = e.pkg
	}
	for i, p := range sf.Params {
		a := e.eval(n.Args[i])
		if a.C != nil {
			if t := e.x.tryResolveType(sub.pkg, p.Type); t != nil {
				a = e.typed(a, t)
			}
		}
		sub.vars[p.Name] = a
	}
	return sub.eval(sf.Body)
}

// ---------------------------------------------------------------------------
// sequences

func (e *CEnv) content(a *Val) *Val {
	m := e.st.m
	switch a.K {
	case KSeq:
		return a
	case KSlice, KString:
		bs := m.intSort(intInfo{8, false})
		inner := ArrOf(m.idx(), bs)
		h := e.st.viewGet(e.view(), elemKey(types.Typ[types.Uint8])+"|", ArrOf(SInt, inner))
		return &Val{K: KSeq, S: sel(h, a.arr(), inner), Fs: []*Val{scalar(nil, KInt, a.off()), scalar(nil, KInt, a.ln())}}
	}
	e.errf("content of %v", a.K)
	return nil
}

func (e *CEnv) toSeq(a *Val) *Val { return e.content(a) }

func (e *CEnv) seqEq(a, b *Val) Tm {
	m := e.st.m
	bs := m.intSort(intInfo{8, false})
	at := func(i Tm) Tm {
		return eq(sel(a.S, m.add(a.Fs[0].S, i), bs), sel(b.S, m.add(b.Fs[0].S, i), bs))
	}
	if e.sides == nil && e.pol < 0 {
		// to be proved: skolemise
		sk := e.st.declare("sk.k", m.idx())
		e.st.trigger(sk)
		e.st.trigger(m.add(a.Fs[0].S, sk))
		e.st.trigger(m.add(b.Fs[0].S, sk))
		return and(eq(a.Fs[1].S, b.Fs[1].S), implies(and(m.le(m.idxLit(0), sk), m.lt(sk, a.Fs[1].S)), at(sk)))
	}
	bn := freshName("k")
	i := Tm{bn, m.idx()}
	rng := and(m.le(m.idxLit(0), i), m.lt(i, a.Fs[1].S))
	var q Tm
	if e.pol > 0 {
		q = tm(SBool, "(forall ((%s %s)) (! (=> %s %s) :pattern ((%s %s))))", bn, m.idx(), rng.S, at(i).S, e.x.trUF(m.idx()), bn)
	} else {
		q = tm(SBool, "(forall ((%s %s)) (=> %s %s))", bn, m.idx(), rng.S, at(i).S)
	}
	return and(eq(a.Fs[1].S, b.Fs[1].S), q)
}

// ---------------------------------------------------------------------------
// ghosts

func (x *Exec) ghostKeySort(m Mode, k string) Sort {
	if strings.HasPrefix(k, "*") {
		return SInt
	}
	switch k {
	case "ref", "addr":
		return SInt
	case "int":
		return m.idx()
	case "bool":
		return SBool
	case "bytes":
		return ArrOf(m.idx(), m.intSort(intInfo{8, false}))
	case "byte":
		return m.intSort(intInfo{8, false})
	}
	engineErr("ghost: unknown sort %q", k)
	return ""
}

func (x *Exec) ghostSort(m Mode, gd *GhostDecl) Sort {
	res := strings.Fields(gd.Result)
	s := x.ghostKeySort(m, res[0])
	for i := len(gd.Keys) - 1; i >= 0; i-- {
		s = ArrOf(x.ghostKeySort(m, gd.Keys[i]), s)
	}
	return s
}

func ghostIsConst(gd *GhostDecl) bool { return strings.Contains(gd.Result, "const") }

// ghostIsLocal: "ghost g(..) T local" - auxiliary state of one function's proof (set by its
// "after .. ghostset" clauses, read by its own invariants and posts); inlined instances of the
// function do not maintain it and no frame condition is generated for it.
func ghostIsLocal(gd *GhostDecl) bool {
	for _, f := range strings.Fields(gd.Result)[1:] {
		if f == "local" {
			return true
		}
	}
	return false
}

func (e *CEnv) ghostKeyTerm(gd *GhostDecl, i int, v *Val) Tm {
	kk := gd.Keys[i]
	if strings.HasPrefix(kk, "*") {
		kk = "ref"
	}
	switch kk {
	case "ref", "addr":
		var t Tm
		switch v.K {
		case KPtr, KChan, KMap:
			t = e.ptrTerm(v)
		case KIface:
			t = v.ival()
		case KSlice, KString:
			t = v.arr()
		case KInt:
			t = v.S
		}
		if t.S != "" {
			e.triggerRef(t)
			return t
		}
		e.errf("ghost %s: key %d of kind %v is not a reference", gd.Name, i, v.K)
	case "int":
		t := e.x.toIdx(e.st, e.typed(v, types.Typ[types.Int]))
		e.trigger(t)
		return t
	case "bool":
		return v.S
	}
	return v.S
}

func (e *CEnv) ghostArray(gd *GhostDecl) Tm {
	s := e.x.ghostSort(e.st.m, gd)
	key := "ghost|" + gd.Name
	if ghostIsConst(gd) {
		if _, ok := e.st.sorts[key]; !ok {
			e.st.sorts[key] = s
		}
		return Tm{"H0!" + sanitize(key), s}
	}
	return e.st.viewGet(e.view(), key, s)
}

func (e *CEnv) ghostResult(gd *GhostDecl, t Tm) *Val {
	if r := strings.Fields(gd.Result)[0]; strings.HasPrefix(r, "*") {
		return &Val{T: e.x.resolveType(gd.Pkg, r), K: KPtr, S: t}
	}
	switch strings.Fields(gd.Result)[0] {
	case "bool":
		return boolVal(t)
	case "bytes":
		m := e.st.m
		return &Val{K: KSeq, S: t, Fs: []*Val{scalar(nil, KInt, m.idxLit(0)), scalar(nil, KInt, m.lit(maxLen, goInt))}}
	case "ref":
		return &Val{T: types.Typ[types.UnsafePointer], K: KPtr, S: t}
	case "byte":
		return &Val{T: types.Typ[types.Uint8], K: KInt, S: t}
	}
	return &Val{T: types.Typ[types.Int], K: KInt, S: t}
}

func (e *CEnv) ghostApp(gd *GhostDecl, n *ast.CallExpr) *Val {
	if len(n.Args) != len(gd.Keys) {
		e.errf("ghost %s expects %d keys", gd.Name, len(gd.Keys))
	}
	t := e.ghostArray(gd)
	for i, a := range n.Args {
		k := e.ghostKeyTerm(gd, i, e.eval(a))
		t = sel(t, k, arrayElemSort(t.Sort))
	}
	if t.Sort == e.st.m.idx() {
		e.trigger(t) // int-valued ghosts (positions) are index terms
	}
	return e.ghostResult(gd, t)
}

func (e *CEnv) ghostUpdate(fname string, n *ast.CallExpr) *Val {
	id, ok := n.Args[0].(*ast.Ident)
	if !ok {
		e.errf("%s: first argument must name a ghost", fname)
	}
	gd := e.x.cs.Ghosts[id.Name]
	if gd == nil {
		e.errf("unknown ghost %s", id.Name)
	}
	s := e.x.ghostSort(e.st.m, gd)
	key := "ghost|" + gd.Name
	cur := e.st.viewGet(e.view(), key, s)
	old := e.st.viewGet(e.oldHeap, key, s)
	if e.oldHeap == nil {
		old = Tm{"H0!" + sanitize(key), s}
	}
	switch fname {
	case "gsame":
		return boolVal(eq(cur, old))
	case "gstore1":
		if len(n.Args) != 3 || len(gd.Keys) != 1 {
			e.errf("gstore1(g, k, v)")
		}
		k := e.ghostKeyTerm(gd, 0, e.eval(n.Args[1]))
		v := e.typedGhostVal(gd, e.eval(n.Args[2]))
		return boolVal(eq(cur, store(old, k, v)))
	case "gstore2":
		if len(n.Args) != 4 || len(gd.Keys) != 2 {
			e.errf("gstore2(g, k1, k2, v)")
		}
		k1 := e.ghostKeyTerm(gd, 0, e.eval(n.Args[1]))
		k2 := e.ghostKeyTerm(gd, 1, e.eval(n.Args[2]))
		v := e.typedGhostVal(gd, e.eval(n.Args[3]))
		inner := arrayElemSort(s)
		return boolVal(eq(cur, store(old, k1, store(sel(old, k1, inner), k2, v))))
	}
	return nil
}

func (e *CEnv) typedGhostVal(gd *GhostDecl, v *Val) Tm {
	if strings.HasPrefix(strings.Fields(gd.Result)[0], "*") {
		return v.S
	}
	switch strings.Fields(gd.Result)[0] {
	case "int":
		return e.x.toIdx(e.st, e.typed(v, types.Typ[types.Int]))
	case "byte":
		return e.typed(v, types.Typ[types.Uint8]).S
	case "ref":
		if v.K == KIface {
			return v.ival()
		}
		if v.K == KSlice {
			return v.arr()
		}
	}
	return v.S
}
