package main

// C14 replays. Oracles from the property statement: the conversion helpers return exactly
// the content of every supported input, including readers that deliver data in arbitrary
// fragments or together with io.EOF.

func init() {
	registerReplay(`^utils\.byteReader\.ReadByte#post:`, replayReadByte, nil)
	registerReplay(`^utils\.ToBytes#pre:utils\.StealBytes`, replayStealBytes, nil)
	registerReplay(`^utils\.ByteStealer\.Write#`, replayStealBytes, nil)
	registerReplay(`^utils\.StealBytes#`, replayStealBytes, nil)
}

// The failing class (from the model): Read returns n == 1 together with a non-nil error
// (io.EOF) - allowed by io.Reader - or n == 0 with an error after data.
func replayReadByte(ld *Loaded, o *Obligation, m map[string]string, smt string) (string, string, bool) {
	src := `package utils

import (
	"bytes"
	"testing"
	"testing/iotest"
)

// generated for ` + o.Name + `: a reader that returns its last byte together with io.EOF
func TestReplayVerif(t *testing.T) {
	content := []byte{0x05, 0x7f, 0x01}
	br := NewByteReader(iotest.DataErrReader(iotest.OneByteReader(bytes.NewReader(content))))
	var got []byte
	for i := 0; i < 10; i++ {
		b, err := br.ReadByte()
		if err != nil {
			break
		}
		got = append(got, b)
	}
	if !bytes.Equal(got, content) {
		t.Fatalf("REPLAY-CONFIRMED: byte-wise reading of %v delivered %v", content, got)
	}
}
`
	return "utils", src, true
}

func replayStealBytes(ld *Loaded, o *Obligation, m map[string]string, smt string) (string, string, bool) {
	src := `package utils

import (
	"io"
	"strings"
	"testing"
)

// generated for ` + o.Name + `: an io.WriterTo that reuses its copy buffer between Write calls
// (io.MultiReader over readers without WriteTo), as io.Writer permits.
func TestReplayVerif(t *testing.T) {
	want := "ABCDEFGHIJ0123456789"
	r := io.MultiReader(io.LimitReader(strings.NewReader("ABCDEFGHIJ"), 10), io.LimitReader(strings.NewReader("0123456789"), 10))
	got, err := ToBytes(r)
	if err != nil {
		t.Fatalf("unexpected error %v", err)
	}
	if string(got) != want {
		t.Fatalf("REPLAY-CONFIRMED: ToBytes of a fragmented io.WriterTo returned %q, want %q", got, want)
	}
}
`
	return "utils", src, true
}
