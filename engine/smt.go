package main

// SMT term construction. Terms are plain SMT-LIB2 strings paired with a sort.
// Integer-typed Go values are rendered in one of two modes, chosen per function
// under contract (DESIGN.md 2.2):
//   mode bv  - exact two's complement bit-vectors of the Go width
//   mode int - mathematical integers; every + - * on a Go integer type carries
//              an #overflow obligation, conversions are exact (ite / mod)

import (
	"fmt"
	"regexp"
	"go/constant"
	"go/token"
	"go/types"
	"math/big"
	"strings"
)

type Sort string

const (
	SBool Sort = "Bool"
	SInt  Sort = "Int"
)

func BVSort(w int) Sort { return Sort(fmt.Sprintf("(_ BitVec %d)", w)) }

func ArrOf(idx, elem Sort) Sort { return Sort(fmt.Sprintf("(Array %s %s)", idx, elem)) }

func (s Sort) isBV() bool { return strings.HasPrefix(string(s), "(_ BitVec") }

func (s Sort) bvWidth() int {
	var w int
	fmt.Sscanf(string(s), "(_ BitVec %d)", &w)
	return w
}

type Tm struct {
	S    string
	Sort Sort
}

func tm(sort Sort, format string, args ...interface{}) Tm {
	return Tm{S: fmt.Sprintf(format, args...), Sort: sort}
}

var (
	tTrue  = Tm{"true", SBool}
	tFalse = Tm{"false", SBool}
)

func boolTm(b bool) Tm {
	if b {
		return tTrue
	}
	return tFalse
}

func not(a Tm) Tm {
	switch a.S {
	case "true":
		return tFalse
	case "false":
		return tTrue
	}
	return tm(SBool, "(not %s)", a.S)
}

func and(ts ...Tm) Tm {
	var parts []string
	for _, t := range ts {
		if t.S == "true" {
			continue
		}
		if t.S == "false" {
			return tFalse
		}
		parts = append(parts, t.S)
	}
	switch len(parts) {
	case 0:
		return tTrue
	case 1:
		return Tm{parts[0], SBool}
	}
	return Tm{"(and " + strings.Join(parts, " ") + ")", SBool}
}

func or(ts ...Tm) Tm {
	var parts []string
	for _, t := range ts {
		if t.S == "false" {
			continue
		}
		if t.S == "true" {
			return tTrue
		}
		parts = append(parts, t.S)
	}
	switch len(parts) {
	case 0:
		return tFalse
	case 1:
		return Tm{parts[0], SBool}
	}
	return Tm{"(or " + strings.Join(parts, " ") + ")", SBool}
}

func implies(a, b Tm) Tm {
	if a.S == "true" {
		return b
	}
	if a.S == "false" || b.S == "true" {
		return tTrue
	}
	return tm(SBool, "(=> %s %s)", a.S, b.S)
}

var numLitRe = regexp.MustCompile(`^(\d+|\(- \d+\)|\(_ bv\d+ \d+\))$`)

func eq(a, b Tm) Tm {
	if a.S == b.S {
		return tTrue
	}
	if numLitRe.MatchString(a.S) && numLitRe.MatchString(b.S) {
		return tFalse // distinct numerals
	}
	return tm(SBool, "(= %s %s)", a.S, b.S)
}

func ite(c, a, b Tm) Tm {
	if c.S == "true" {
		return a
	}
	if c.S == "false" {
		return b
	}
	if a.S == b.S {
		return a
	}
	return tm(a.Sort, "(ite %s %s %s)", c.S, a.S, b.S)
}

func sel(arr Tm, idx Tm, elem Sort) Tm {
	return tm(elem, "(select %s %s)", arr.S, idx.S)
}

func store(arr Tm, idx Tm, v Tm) Tm {
	return tm(arr.Sort, "(store %s %s %s)", arr.S, idx.S, v.S)
}

func intLit(n int64) Tm {
	if n < 0 {
		return tm(SInt, "(- %d)", -n)
	}
	return tm(SInt, "%d", n)
}

func bigLit(n *big.Int) Tm {
	if n.Sign() < 0 {
		return tm(SInt, "(- %s)", new(big.Int).Neg(n).String())
	}
	return tm(SInt, "%s", n.String())
}

// bvLit renders n modulo 2^w.
func bvLit(n *big.Int, w int) Tm {
	m := new(big.Int).Lsh(big.NewInt(1), uint(w))
	v := new(big.Int).Mod(n, m)
	return tm(BVSort(w), "(_ bv%s %d)", v.String(), w)
}

// ---------------------------------------------------------------------------
// integer typing

type intInfo struct {
	width  int
	signed bool
}

func basicIntInfo(t types.Type) (intInfo, bool) {
	b, ok := t.Underlying().(*types.Basic)
	if !ok {
		return intInfo{}, false
	}
	switch b.Kind() {
	case types.Int, types.Int64:
		return intInfo{64, true}, true
	case types.Int32:
		return intInfo{32, true}, true
	case types.Int16:
		return intInfo{16, true}, true
	case types.Int8:
		return intInfo{8, true}, true
	case types.Uint, types.Uint64, types.Uintptr:
		return intInfo{64, false}, true
	case types.Uint32:
		return intInfo{32, false}, true
	case types.Uint16:
		return intInfo{16, false}, true
	case types.Uint8:
		return intInfo{8, false}, true
	case types.UntypedInt, types.UntypedRune:
		return intInfo{64, true}, true
	}
	return intInfo{}, false
}

func (ii intInfo) min() *big.Int {
	if !ii.signed {
		return big.NewInt(0)
	}
	return new(big.Int).Neg(new(big.Int).Lsh(big.NewInt(1), uint(ii.width-1)))
}

func (ii intInfo) max() *big.Int {
	if !ii.signed {
		return new(big.Int).Sub(new(big.Int).Lsh(big.NewInt(1), uint(ii.width)), big.NewInt(1))
	}
	return new(big.Int).Sub(new(big.Int).Lsh(big.NewInt(1), uint(ii.width-1)), big.NewInt(1))
}

// Mode of a function under contract.
type Mode struct {
	BV   bool
	Wrap bool // int mode with explicit two's-complement wrap-around on + - * (no overflow obligations)
}

func modeOf(s string) Mode {
	switch s {
	case "bv":
		return Mode{BV: true}
	case "intwrap":
		return Mode{Wrap: true}
	}
	return Mode{}
}

// wrap brings a mathematical result of + or - on in-range operands back into the range of the Go type.
func (m Mode) wrapAddSub(t Tm, ii intInfo) Tm {
	mod := new(big.Int).Lsh(big.NewInt(1), uint(ii.width))
	return tm(SInt, "(ite (> %s %s) (- %s %s) (ite (< %s %s) (+ %s %s) %s))", t.S, bigLit(ii.max()).S, t.S, mod.String(), t.S, bigLit(ii.min()).S, t.S, mod.String(), t.S)
}

func (m Mode) String() string {
	if m.BV {
		return "bv"
	}
	if m.Wrap {
		return "intwrap"
	}
	return "int"
}

func (m Mode) intSort(ii intInfo) Sort {
	if m.BV {
		return BVSort(ii.width)
	}
	return SInt
}

// idx is the sort of lengths and indices (Go int).
func (m Mode) idx() Sort { return m.intSort(intInfo{64, true}) }

var goInt = intInfo{64, true}

func (m Mode) lit(n *big.Int, ii intInfo) Tm {
	if m.BV {
		return bvLit(n, ii.width)
	}
	return bigLit(n)
}

func (m Mode) idxLit(n int64) Tm { return m.lit(big.NewInt(n), goInt) }

func (m Mode) constInt(c constant.Value, ii intInfo) Tm {
	v, ok := new(big.Int).SetString(constant.ToInt(c).ExactString(), 10)
	if !ok {
		panic("bad integer constant " + c.String())
	}
	return m.lit(v, ii)
}

// inRange is the fact that an Int-mode term lies in the range of its Go type
// (true in bv mode).
func (m Mode) inRange(t Tm, ii intInfo) Tm {
	if m.BV {
		return tTrue
	}
	return and(tm(SBool, "(<= %s %s)", bigLit(ii.min()).S, t.S), tm(SBool, "(<= %s %s)", t.S, bigLit(ii.max()).S))
}

func (m Mode) cmp(op token.Token, a, b Tm, ii intInfo) Tm {
	if op == token.EQL {
		return eq(a, b)
	}
	if op == token.NEQ {
		return not(eq(a, b))
	}
	var f string
	if m.BV {
		s := "bvs"
		if !ii.signed {
			s = "bvu"
		}
		switch op {
		case token.LSS:
			f = s + "lt"
		case token.LEQ:
			f = s + "le"
		case token.GTR:
			f = s + "gt"
		case token.GEQ:
			f = s + "ge"
		}
	} else {
		switch op {
		case token.LSS:
			f = "<"
		case token.LEQ:
			f = "<="
		case token.GTR:
			f = ">"
		case token.GEQ:
			f = ">="
		}
	}
	if f == "" {
		panic("cmp: bad op " + op.String())
	}
	return tm(SBool, "(%s %s %s)", f, a.S, b.S)
}

func (m Mode) le(a, b Tm) Tm { return m.cmp(token.LEQ, a, b, goInt) }
func (m Mode) lt(a, b Tm) Tm { return m.cmp(token.LSS, a, b, goInt) }

func (m Mode) add(a, b Tm) Tm {
	if m.BV {
		return tm(a.Sort, "(bvadd %s %s)", a.S, b.S)
	}
	if b.S == "0" {
		return a
	}
	if a.S == "0" {
		return b
	}
	return tm(SInt, "(+ %s %s)", a.S, b.S)
}

func (m Mode) sub(a, b Tm) Tm {
	if m.BV {
		return tm(a.Sort, "(bvsub %s %s)", a.S, b.S)
	}
	if b.S == "0" {
		return a
	}
	return tm(SInt, "(- %s %s)", a.S, b.S)
}

// arith renders a Go binary arithmetic/bitwise operator on operands of integer
// type ii. In int mode the second result is the un-wrapped mathematical value
// for which an overflow obligation is due ("" if none), and ok=false means the
// operator is not supported in int mode.
func (m Mode) arith(op token.Token, a, b Tm, ii intInfo, bShiftInfo intInfo) (res Tm, needRange bool, divisor bool, ok bool) {
	if m.BV {
		w := ii.width
		var f string
		switch op {
		case token.ADD:
			f = "bvadd"
		case token.SUB:
			f = "bvsub"
		case token.MUL:
			f = "bvmul"
		case token.QUO:
			if ii.signed {
				f = "bvsdiv"
			} else {
				f = "bvudiv"
			}
			divisor = true
		case token.REM:
			if ii.signed {
				f = "bvsrem"
			} else {
				f = "bvurem"
			}
			divisor = true
		case token.AND:
			f = "bvand"
		case token.OR:
			f = "bvor"
		case token.XOR:
			f = "bvxor"
		case token.AND_NOT:
			return tm(a.Sort, "(bvand %s (bvnot %s))", a.S, b.S), false, false, true
		case token.SHL, token.SHR:
			// shift count: widen/narrow b to w bits (unsigned semantic; Go panics on negative counts)
			bw := b.Sort.bvWidth()
			bs := b.S
			if bw < w {
				bs = fmt.Sprintf("((_ zero_extend %d) %s)", w-bw, bs)
			} else if bw > w {
				// counts >= w give 0 / sign fill: saturate
				bs = fmt.Sprintf("(ite (bvuge %s (_ bv%d %d)) (_ bv%d %d) ((_ extract %d 0) %s))", b.S, w, bw, w, w, w-1, b.S)
			}
			if op == token.SHL {
				f = "bvshl"
			} else if ii.signed {
				f = "bvashr"
			} else {
				f = "bvlshr"
			}
			return tm(a.Sort, "(%s %s %s)", f, a.S, bs), false, false, true
		default:
			return Tm{}, false, false, false
		}
		return tm(a.Sort, "(%s %s %s)", f, a.S, b.S), false, divisor, true
	}
	switch op {
	case token.ADD:
		return m.add(a, b), true, false, true
	case token.SUB:
		return m.sub(a, b), true, false, true
	case token.MUL:
		return tm(SInt, "(* %s %s)", a.S, b.S), true, false, true
	case token.QUO:
		// Go truncates toward zero; SMT div floors for positive divisor.
		t := tm(SInt, "(ite (>= %s 0) (ite (> %s 0) (div %s %s) (- (div %s (- %s)))) (ite (> %s 0) (- (div (- %s) %s)) (div (- %s) (- %s))))",
			a.S, b.S, a.S, b.S, a.S, b.S, b.S, a.S, b.S, a.S, b.S)
		return t, ii.signed, true, true
	case token.REM:
		t := tm(SInt, "(ite (>= %s 0) (mod %s (abs %s)) (- (mod (- %s) (abs %s))))", a.S, a.S, b.S, a.S, b.S)
		return t, false, true, true
	case token.SHR:
		// only constant shift counts
		var k int
		if _, err := fmt.Sscanf(b.S, "%d", &k); err == nil && k >= 0 && k < 63 {
			p := new(big.Int).Lsh(big.NewInt(1), uint(k))
			return tm(SInt, "(div %s %s)", a.S, p.String()), false, false, true
		}
	case token.SHL:
		var k int
		if _, err := fmt.Sscanf(b.S, "%d", &k); err == nil && k >= 0 && k < 63 {
			p := new(big.Int).Lsh(big.NewInt(1), uint(k))
			return tm(SInt, "(* %s %s)", a.S, p.String()), true, false, true
		}
	}
	return Tm{}, false, false, false
}

// convert renders a Go integer conversion from type 'from' to type 'to'.
func (m Mode) convert(a Tm, from, to intInfo) Tm {
	if m.BV {
		switch {
		case to.width == from.width:
			return Tm{a.S, BVSort(to.width)}
		case to.width < from.width:
			return tm(BVSort(to.width), "((_ extract %d 0) %s)", to.width-1, a.S)
		default:
			ext := "zero_extend"
			if from.signed {
				ext = "sign_extend"
			}
			return tm(BVSort(to.width), "((_ %s %d) %s)", ext, to.width-from.width, a.S)
		}
	}
	// int mode: value-preserving when it fits, else wrap (exact)
	if to.min().Cmp(from.min()) <= 0 && to.max().Cmp(from.max()) >= 0 {
		return a
	}
	mod := new(big.Int).Lsh(big.NewInt(1), uint(to.width))
	if !to.signed {
		return tm(SInt, "(mod %s %s)", a.S, mod.String())
	}
	half := new(big.Int).Lsh(big.NewInt(1), uint(to.width-1))
	return tm(SInt, "(- (mod (+ %s %s) %s) %s)", a.S, half.String(), mod.String(), half.String())
}

func (m Mode) neg(a Tm) Tm {
	if m.BV {
		return tm(a.Sort, "(bvneg %s)", a.S)
	}
	return tm(SInt, "(- %s)", a.S)
}

func (m Mode) bitnot(a Tm, ii intInfo) (Tm, bool) {
	if m.BV {
		return tm(a.Sort, "(bvnot %s)", a.S), true
	}
	if ii.signed {
		return tm(SInt, "(- (- %s) 1)", a.S), true
	}
	return tm(SInt, "(- %s %s)", bigLit(ii.max()).S, a.S), true
}

// zeroOf gives the zero term of a sort.
func zeroOf(s Sort) Tm {
	switch {
	case s == SBool:
		return tFalse
	case s == SInt:
		return Tm{"0", SInt}
	case s.isBV():
		return bvLit(big.NewInt(0), s.bvWidth())
	}
	panic("zeroOf " + string(s))
}
