package main

// C13 replays. Oracle (from the statement): once Shutdown has been called every listener's accept
// loop ends with the server-closed error with its acceptor closed - including listeners whose
// accept loop had not started yet when Shutdown ran.

import "fmt"

func init() {
	registerReplay(`^netty\.listener\.(listen|Sync|Close)#post:.*(closed_listener_never_listens|acceptor_closed_or_absent).*`, replayShutdownBeforeSync, nil)
	registerReplay(`^netty\.listener\.Close#post:unregisters_only_on_first_close`, replayStaleCloseUnregisters, nil)
}

const countingFactory = `
type countingAcceptor struct {
	once sync.Once
	done chan struct{}
}

func (a *countingAcceptor) Accept() (transport.Transport, error) {
	<-a.done
	return nil, errors.New("acceptor closed")
}
func (a *countingAcceptor) Close() error { a.once.Do(func() { close(a.done) }); return nil }
func (a *countingAcceptor) isClosed() bool {
	select {
	case <-a.done:
		return true
	default:
		return false
	}
}

type countingFactory struct {
	mu        sync.Mutex
	acceptors []*countingAcceptor
}

func (f *countingFactory) Schemes() transport.Schemes { return transport.Schemes{"mock"} }
func (f *countingFactory) Connect(*transport.Options) (transport.Transport, error) {
	return nil, errors.New("unsupported")
}
func (f *countingFactory) Listen(*transport.Options) (transport.Acceptor, error) {
	f.mu.Lock()
	defer f.mu.Unlock()
	a := &countingAcceptor{done: make(chan struct{})}
	f.acceptors = append(f.acceptors, a)
	return a, nil
}
func (f *countingFactory) live() (n int) {
	f.mu.Lock()
	defer f.mu.Unlock()
	for _, a := range f.acceptors {
		if !a.isClosed() {
			n++
		}
	}
	return
}
`

func replayShutdownBeforeSync(ld *Loaded, o *Obligation, m map[string]string, smt string) (string, string, bool) {
	src := fmt.Sprintf(`package netty

import (
	"errors"
	"sync"
	"testing"
	"time"

	"github.com/go-netty/go-netty/transport"
)
%s
// generated for %s
func TestReplayVerif(t *testing.T) {
	for try := 0; try < 20; try++ {
		f := &countingFactory{}
		bs := NewBootstrap(WithTransport(f))
		result := make(chan error, 1)
		bs.Listen("mock://127.0.0.1:0").Async(func(err error) { result <- err })
		bs.Shutdown() // may run before the accept loop has started
		select {
		case err := <-result:
			if err != ErrServerClosed {
				t.Fatalf("REPLAY-CONFIRMED: accept loop ended with %%v, want ErrServerClosed", err)
			}
			if n := f.live(); n != 0 {
				t.Fatalf("REPLAY-CONFIRMED: %%d acceptor(s) left open after Shutdown", n)
			}
		case <-time.After(500 * time.Millisecond):
			n := f.live()
			for _, a := range f.acceptors {
				a.Close()
			}
			t.Fatalf("REPLAY-CONFIRMED: Listen().Async() followed by Shutdown(): the accept loop is still running 500ms after Shutdown returned, %%d live acceptor(s) (attempt %%d)", n, try)
		}
	}
}
`, countingFactory, o.Name)
	return ".", src, true
}

// A second Close of an already closed listener, after its URL has been listened on again: the new
// listener must stay registered, so that Shutdown still finds and closes it.
func replayStaleCloseUnregisters(ld *Loaded, o *Obligation, m map[string]string, smt string) (string, string, bool) {
	src := fmt.Sprintf(`package netty

import (
	"errors"
	"sync"
	"testing"
	"time"

	"github.com/go-netty/go-netty/transport"
)
%s
// generated for %s
func TestReplayVerif(t *testing.T) {
	f := &countingFactory{}
	bs := NewBootstrap(WithTransport(f))
	old := bs.Listen("mock://127.0.0.1:0")
	old.Close()
	result := make(chan error, 1)
	bs.Listen("mock://127.0.0.1:0").Async(func(err error) { result <- err }) // same URL, allowed: the old listener is closed
	for i := 0; i < 2000 && f.live() == 0; i++ {
		time.Sleep(time.Millisecond) // until the accept loop holds its acceptor
	}
	if f.live() != 1 {
		t.Skip("the accept loop did not start")
	}
	old.Close() // e.g. a deferred Close of the listener that was closed explicitly before
	bs.Shutdown()
	select {
	case err := <-result:
		if err != ErrServerClosed {
			t.Fatalf("REPLAY-CONFIRMED: accept loop ended with %%v, want ErrServerClosed", err)
		}
	case <-time.After(500 * time.Millisecond):
		n := f.live()
		for _, a := range f.acceptors {
			a.Close()
		}
		t.Fatalf("REPLAY-CONFIRMED: Listen(u).Close(); Listen(u).Async(); old.Close(); Shutdown(): the second listener is still accepting 500ms after Shutdown returned (%%d live acceptor), because the stale Close removed it from the registry", n)
	}
}
`, countingFactory, o.Name)
	return ".", src, true
}
