package main

// Models of library calls that call back into code under contract.

import (
	"fmt"
	"go/types"

	"golang.org/x/tools/go/ssa"
)

type ifaceModel func(x *Exec, st *State, fr *Frame, site ssa.Instruction, recv *Val, args []*Val, kn func(*State, []*Val), kp func(*State, *Val)) bool

var ifaceModels = map[string]ifaceModel{}

func init() { ifaceModels["iface:io.WriterTo.WriteTo"] = writerToModel }

// writerToModel: r.WriteTo(w) where the dynamic type of w is known on this path and has a
// Write method under contract. ASSUMED of r (obligation pre:WriteTo.stable): r is a
// *bytes.Reader or *strings.Reader, whose WriteTo hands the whole remaining content to w in a
// single Write call and never touches that chunk again. The effect on w is then given by the
// contract of w's own Write method.
func writerToModel(x *Exec, st *State, fr *Frame, site ssa.Instruction, recv *Val, args []*Val, kn func(*State, []*Val), kp func(*State, *Val)) bool {
	w := args[0]
	id := x.constTypeID(w)
	if id == 0 {
		return false
	}
	wt := x.typeByID[id]
	sel := x.prog.MethodSets.MethodSet(wt).Lookup(nil, "Write")
	if sel == nil {
		return false
	}
	wfn := x.prog.MethodValue(sel)
	if wfn == nil || x.cs.Funcs[fnKey(wfn)] == nil || x.cs.Funcs[fnKey(wfn)].Assumed {
		return false // only writers whose Write is under contract in the repository (retaining writers)
	}
	m := st.m
	ord := x.siteOrdinal(fr.fn, site, "call")
	env := &CEnv{x: x, st: st, vars: map[string]*Val{"recv": recv}, pkg: "io"}
	stable := func() Tm {
		defer func() { recover() }()
		cl, _ := parseClause("is(recv, *bytes.Reader) || is(recv, *strings.Reader)", "", 0, false)
		return env.goal(cl)
	}()
	x.emit(st, fmt.Sprintf("pre:%sWriteTo.stable@%d", fr.prefix, ord), "pre", stable,
		"the io.WriterTo handed to a retaining writer is a *bytes.Reader or *strings.Reader (one Write call, chunk never reused)")
	st.assume(stable)
	// chunk := the remaining content, in a backing array nobody else writes to
	cl, _ := parseClause("ravail(recv)", "", 0, false)
	avail := env.eval(cl.Expr)
	arr := st.newRef("chunk")
	ln := st.define("chunklen", x.toIdx(st, avail))
	st.assume(m.le(m.idxLit(0), ln))
	chunk := x.mkSlice(types.NewSlice(types.Typ[types.Uint8]), arr, m.idxLit(0), ln, ln)
	env.vars["chunk"] = chunk
	cl2, _ := parseClause("seqeq(content(chunk), rcontent(recv))", "", 0, false)
	st.assume(env.hyp(cl2))
	_, wv := x.typeTest(st, w, wt)
	x.callFunction(st, fr, site, wfn, []*Val{wv, chunk}, nil, nil,
		func(s *State, res []*Val) {
			// rpos(recv) := rend(recv); result (n, err) = what Write returned, as int64
			e2 := &CEnv{x: x, st: s, vars: map[string]*Val{"recv": recv}, pkg: "io", oldHeap: s.heapCopy()}
			gd := x.cs.Ghosts["rpos"]
			key := "ghost|rpos"
			srt := x.ghostSort(m, gd)
			cur := s.heapGet(key, srt)
			clEnd, _ := parseClause("rend(recv)", "", 0, false)
			endv := e2.eval(clEnd.Expr)
			s.heapSet(key, store(cur, recv.ival(), x.toIdx(s, endv)))
			n64 := scalar(types.Typ[types.Int64], KInt, m.convert(res[0].S, goInt, intInfo{64, true}))
			kn(s, []*Val{n64, res[1]})
		}, kp)
	return true
}
