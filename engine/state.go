package main

// Path state of the symbolic executor: SMT commands accumulated along the path
// (declarations, definitions, assumptions), the versioned heap, the ghost call
// trace and the allocation counter.

import (
	"fmt"
	"go/types"
	"sort"
	"strings"
)

type Event struct {
	Callee string // e.g. "iface:github.com/go-netty/go-netty.OutboundContext.HandleWrite" or function key
	Short  string // method / function short name
	Recv   *Val
	Args   []*Val
	Res    []*Val
	Heap   map[string]Tm // heap at the time of the call (for content() of arguments)
	Tag    string
}

type loopRec struct {
	atHeader map[string]*Val // values of the loop-carried variables at the start of the current iteration
	header   int // block index
	fnKey    string
	frameID  int
	traceLen int
	decr     *Val
	snapshot map[string]*Val
	heap     map[string]Tm
	alloc    Tm
}

type frameData struct {
	vals      map[interface{}]*Val
	names     map[string]*Val
	allocs    map[string]*Val
	defers    []*deferred
	panicking *Val
	recovered bool
}

func (fd *frameData) clone() *frameData {
	n := &frameData{vals: make(map[interface{}]*Val, len(fd.vals)), names: make(map[string]*Val, len(fd.names)), allocs: make(map[string]*Val, len(fd.allocs))}
	for k, v := range fd.vals {
		n.vals[k] = v
	}
	for k, v := range fd.names {
		n.names[k] = v
	}
	for k, v := range fd.allocs {
		n.allocs[k] = v
	}
	n.defers = append([]*deferred(nil), fd.defers...)
	n.panicking, n.recovered = fd.panicking, fd.recovered
	return n
}

// F returns the dynamic data of a frame on this path.
func (st *State) F(fr *Frame) *frameData {
	fd := st.frames[fr.id]
	if fd == nil {
		fd = &frameData{vals: map[interface{}]*Val{}, names: map[string]*Val{}, allocs: map[string]*Val{}}
		st.frames[fr.id] = fd
	}
	return fd
}

type State struct {
	frames  map[int]*frameData
	m       Mode
	cmds    []string
	heap    map[string]Tm
	sorts   map[string]Sort // sort of each heap array key
	alloc   Tm
	trace   []Event
	loops   []loopRec
	x       *Exec
	locks   []string // held locks (executor-level, for protection obligations)
	ghostN  int
	dead    bool
	notes   []string
	closureChecks []closureCheck
	locals        []*Ptr // non-escaping local cells: survive "modifies all"
	trig          []Tm   // ground index terms registered as quantifier triggers
	typeIDs map[string]bool // concrete type keys seen on this path
	ifaces  map[string]bool
}

func (st *State) clone() *State {
	n := *st
	n.cmds = append([]string(nil), st.cmds...)
	n.heap = make(map[string]Tm, len(st.heap))
	for k, v := range st.heap {
		n.heap[k] = v
	}
	n.frames = make(map[int]*frameData, len(st.frames))
	for k, v := range st.frames {
		n.frames[k] = v.clone()
	}
	n.sorts = st.sorts // shared, append-only, deterministic
	n.trace = append([]Event(nil), st.trace...)
	n.loops = append([]loopRec(nil), st.loops...)
	n.locks = append([]string(nil), st.locks...)
	n.locals = append([]*Ptr(nil), st.locals...)
	n.trig = append([]Tm(nil), st.trig...)
	n.notes = append([]string(nil), st.notes...)
	return &n
}

func (st *State) heapCopy() map[string]Tm {
	h := make(map[string]Tm, len(st.heap))
	for k, v := range st.heap {
		h[k] = v
	}
	return h
}

var freshCounter int

func freshName(prefix string) string {
	freshCounter++
	return fmt.Sprintf("%s!%d", sanitize(prefix), freshCounter)
}

func (st *State) declare(prefix string, sort Sort) Tm {
	n := freshName(prefix)
	st.cmds = append(st.cmds, fmt.Sprintf("(declare-fun %s () %s)", n, sort))
	return Tm{n, sort}
}

// define names a term so later uses stay small.
func (st *State) define(prefix string, t Tm) Tm {
	if len(t.S) < 24 && !strings.Contains(t.S, " ") {
		return t
	}
	n := freshName(prefix)
	st.cmds = append(st.cmds, fmt.Sprintf("(define-fun %s () %s %s)", n, t.Sort, t.S))
	return Tm{n, t.Sort}
}

func (st *State) assume(t Tm) {
	if t.S == "true" {
		return
	}
	if t.Sort != SBool {
		panic("assume of non-bool " + t.S)
	}
	if t.S == "false" && st.x != nil {
		st.x.falseAssumes++ // a hypothesis that is literally false kills the path: vacuity hazard, reported
	}
	st.cmds = append(st.cmds, fmt.Sprintf("(assert %s)", t.S))
}

func (st *State) comment(s string) {
	st.cmds = append(st.cmds, "; "+strings.ReplaceAll(s, "\n", " "))
}

// fresh symbolic value of a Go type.
func (st *State) freshVal(prefix string, t types.Type) *Val {
	ls := st.m.leaves(t)
	ts := make([]Tm, len(ls))
	for i, l := range ls {
		ts[i] = st.declare(prefix+l.path, l.sort)
	}
	v := st.m.build(t, ts)
	st.assumeWellFormed(v)
	return v
}

// wellFormed gives the type invariants every Go value satisfies: integer
// ranges in int mode, 0 <= len <= cap and off >= 0 for slices, references not
// beyond the allocation counter.
func (st *State) wellFormed(v *Val) Tm { return st.wellFormedAt(v, st.alloc) }

// wellFormedAt: the type invariants with references bounded by the given allocation counter.
func (st *State) wellFormedAt(v *Val, alloc Tm) Tm {
	m := st.m
	switch v.K {
	case KInt:
		if v.T != nil {
			if ii, ok := basicIntInfo(v.T); ok {
				return m.inRange(v.S, ii)
			}
		}
	case KPtr, KChan, KMap:
		return tm(SBool, "(<= %s %s)", v.S.S, alloc.S)
	case KSlice:
		z := m.idxLit(0)
		return and(m.le(z, v.off()), m.le(z, v.ln()), m.le(v.ln(), v.cp()),
			m.inRange(v.off(), goInt), m.inRange(v.cp(), goInt),
			m.le(v.cp(), m.lit(maxLen, goInt)), m.le(v.off(), m.lit(maxLen, goInt)),
			tm(SBool, "(<= %s %s)", v.arr().S, alloc.S),
			// nil slice has zero length and capacity
			implies(eq(v.arr(), Tm{"0", SInt}), eq(v.cp(), z)))
	case KString:
		z := m.idxLit(0)
		return and(m.le(z, v.off()), m.le(z, v.ln()), m.inRange(v.ln(), goInt), m.le(v.ln(), m.lit(maxLen, goInt)),
			m.le(v.off(), m.lit(maxLen, goInt)),
			tm(SBool, "(<= %s %s)", v.arr().S, alloc.S))
	case KIface:
		f := and(tm(SBool, "(>= %s 0)", v.ityp().S), tm(SBool, "(<= %s %s)", v.ival().S, alloc.S))
		// a value of interface type I is nil or has a dynamic type implementing I
		if v.T != nil && st.x != nil {
			if it, ok := v.T.Underlying().(*types.Interface); ok && it.NumMethods() > 0 {
				uf := st.x.implUF(v.T)
				f = and(f, or(eq(v.ityp(), Tm{"0", SInt}), tm(SBool, "(%s %s)", uf, v.ityp().S)))
			}
		}
		return f
	case KFunc:
		return tm(SBool, "(<= %s %s)", v.Fs[1].S.S, alloc.S)
	case KStruct, KTuple:
		var cs []Tm
		for _, f := range v.Fs {
			cs = append(cs, st.wellFormedAt(f, alloc))
		}
		return and(cs...)
	}
	return tTrue
}

func (st *State) assumeWellFormed(v *Val) { st.assume(st.wellFormed(v)) }

// ---------------------------------------------------------------------------
// heap arrays

const genKey = "\x00gen"

// heapGet: current version of a heap array. Arrays not touched since the last
// "modifies all" havoc resolve to a fresh array of that havoc generation (not to the
// entry array).
// immutableKey: heap arrays no code changes: interface boxes, constant ghosts, package-level
// error values of other packages (io.EOF, io.ErrShortWrite, ...: assumed never reassigned).
func (st *State) immutableKey(key string) bool {
	if strings.HasPrefix(key, "B|") {
		return true
	}
	if strings.HasPrefix(key, "ghost|") {
		if gd := st.x.cs.Ghosts[strings.TrimPrefix(key, "ghost|")]; gd != nil && ghostIsConst(gd) {
			return true
		}
	}
	if strings.HasPrefix(key, "G|") {
		name := strings.TrimPrefix(key, "G|")
		if i := strings.Index(name, "|"); i >= 0 {
			name = name[:i]
		}
		return st.x.sentinel[name]
	}
	return false
}

func (st *State) heapGet(key string, sort Sort) Tm {
	if t, ok := st.heap[key]; ok {
		return t
	}
	if st.immutableKey(key) {
		return st.heapInit(key, sort)
	}
	if g, ok := st.heap[genKey]; ok {
		t := st.genArray(g.S, key, sort)
		st.heap[key] = t
		return t
	}
	return st.heapInit(key, sort)
}

func (st *State) genArray(gen, key string, sort Sort) Tm {
	if _, ok := st.sorts[key]; !ok {
		st.sorts[key] = sort
	}
	n := "HA" + gen + "!" + sanitize(key)
	st.x.declUF(n, fmt.Sprintf("(declare-fun %s () %s)", n, sort))
	return Tm{n, sort}
}

var havocGen int

// havocAll forgets the whole heap (except immutable boxes and constant ghosts).
func (st *State) havocAll() {
	type saved struct {
		p *Ptr
		v *Val
	}
	var keepLocals []saved
	for _, p := range st.locals {
		keepLocals = append(keepLocals, saved{p, st.loadFrom(st.heap, p)})
	}
	defer func() {
		for _, s := range keepLocals {
			st.storeTo(s.p, s.v)
		}
	}()
	havocGen++
	keep := map[string]Tm{}
	for k, v := range st.heap {
		if st.immutableKey(k) {
			keep[k] = v
		}
	}
	st.heap = keep
	st.heap[genKey] = Tm{fmt.Sprint(havocGen), SInt}
}

func (st *State) heapInit(key string, sort Sort) Tm {
	n := "H0!" + sanitize(key)
	t := Tm{n, sort}
	if _, ok := st.sorts[key]; !ok {
		st.sorts[key] = sort
	}
	// declaration is emitted by the obligation writer from st.sorts (initial arrays
	// are global to a query); nothing to add to cmds.
	st.heap[key] = t
	return t
}

// viewGet reads a heap array from a saved view (for old()).
func (st *State) viewGet(view map[string]Tm, key string, sort Sort) Tm {
	if t, ok := view[key]; ok {
		return t
	}
	if g, ok := view[genKey]; ok && !st.immutableKey(key) {
		return st.genArray(g.S, key, sort)
	}
	if _, ok := st.sorts[key]; !ok {
		st.sorts[key] = sort
	}
	return Tm{"H0!" + sanitize(key), sort}
}

func (st *State) heapSet(key string, t Tm) {
	st.heap[key] = st.define("H."+key, t)
}

// havocKey replaces a heap array by a fresh unconstrained one.
func (st *State) havocKey(key string) {
	s, ok := st.sorts[key]
	if !ok {
		return
	}
	st.heap[key] = st.declare("Hv."+key, s)
}

func (st *State) heapKeys() []string {
	var ks []string
	for k := range st.sorts {
		ks = append(ks, k)
	}
	sort.Strings(ks)
	return ks
}

// newRef allocates a fresh reference.
func (st *State) newRef(prefix string) Tm {
	n := st.define("alloc", tm(SInt, "(+ %s 1)", st.alloc.S))
	st.alloc = n
	return n
}

// storage key of the object a pointer points into
func objKey(root types.Type) string  { return "F|" + typeKey(root) }
func boxKey(root types.Type) string  { return "B|" + typeKey(root) }

func (p *Ptr) rootKey() string {
	if p.Kind == PBox {
		return boxKey(p.Root)
	}
	return objKey(p.Root)
}
func elemKey(elem types.Type) string { return "E|" + typeKey(elem) }

// subLeaves returns the leaves of the sub-object of root at path, with their
// full path strings (relative to root), and the type of the sub-object.
func (m Mode) subLeaves(root types.Type, path []int) (prefix string, t types.Type) {
	t = root
	for _, i := range path {
		st, ok := t.Underlying().(*types.Struct)
		if !ok {
			panic("subLeaves: field path into non-struct " + t.String())
		}
		prefix += "." + st.Field(i).Name()
		t = st.Field(i).Type()
	}
	return
}

// load reads the value of type t (the pointee) through p from the given heap view.
func (st *State) loadFrom(view map[string]Tm, p *Ptr) *Val {
	v, _ := st.loadFromE(view, p)
	return v
}

// loadFromE also tells whether every heap array read is the entry version of a mutable array
// (never written, never havocked): what is stored there was stored before the function was
// entered, so every reference in it is to an object that existed at entry (entryClosed).
func (st *State) loadFromE(view map[string]Tm, p *Ptr) (*Val, bool) {
	entry := true
	note := func(key string, arr Tm) {
		if !strings.HasPrefix(arr.S, "H0!") || st.immutableKey(key) {
			entry = false
		}
	}
	m := st.m
	prefix, t := m.subLeaves(p.Root, p.Path)
	ls := m.leaves(t)
	ts := make([]Tm, len(ls))
	for i, l := range ls {
		switch p.Kind {
		case PObj, PBox:
			key := p.rootKey() + "|" + prefix + l.path
			arr := st.viewGet(view, key, ArrOf(SInt, l.sort))
			note(key, arr)
			ts[i] = sel(arr, p.Base, l.sort)
		case PGlobal:
			key := "G|" + p.Glob + "|" + prefix + l.path
			arr := st.viewGet(view, key, ArrOf(SInt, l.sort))
			note(key, arr)
			ts[i] = sel(arr, Tm{"0", SInt}, l.sort)
		case PElem:
			key := elemKey(p.Root) + "|" + prefix + l.path
			inner := ArrOf(m.idx(), l.sort)
			arr := st.viewGet(view, key, ArrOf(SInt, inner))
			note(key, arr)
			ts[i] = sel(sel(arr, p.Base, inner), p.Idx, l.sort)
		}
	}
	v := m.build(t, ts)
	return v, entry && len(ls) > 0
}

// entryAlloc is the allocation counter at the entry of the function under verification.
var entryAlloc = Tm{"0", SInt}

// entryClosed: a value read from the entry heap through a reference that existed at entry refers
// only to objects that existed at entry. (Objects an assumed contract returns as fresh may be
// described without a heap write: nothing is said about what is read through a fresh reference.)
func (st *State) entryClosed(p *Ptr, v *Val) Tm {
	f := st.wellFormedAt(v, entryAlloc)
	if p.Kind == PGlobal {
		return f
	}
	return implies(tm(SBool, "(<= %s %s)", p.Base.S, entryAlloc.S), f)
}

func (st *State) load(p *Ptr) *Val {
	v, entry := st.loadFromE(st.heap, p)
	// name the leaves (keeps later terms small) and add type invariants
	fl := v.flatten()
	for i := range fl {
		fl[i] = st.define("ld", fl[i])
	}
	_, t := st.m.subLeaves(p.Root, p.Path)
	v = st.m.build(t, fl)
	st.assumeWellFormed(v)
	if entry {
		st.assume(st.entryClosed(p, v))
	}
	return v
}

func (st *State) storeTo(p *Ptr, v *Val) {
	m := st.m
	prefix, t := m.subLeaves(p.Root, p.Path)
	ls := m.leaves(t)
	fl := v.flatten()
	if len(fl) != len(ls) {
		panic(fmt.Sprintf("store: shape mismatch storing %v into %v", v.T, t))
	}
	for i, l := range ls {
		switch p.Kind {
		case PObj, PBox:
			key := p.rootKey() + "|" + prefix + l.path
			arr := st.heapGet(key, ArrOf(SInt, l.sort))
			st.heapSet(key, store(arr, p.Base, fl[i]))
		case PGlobal:
			key := "G|" + p.Glob + "|" + prefix + l.path
			arr := st.heapGet(key, ArrOf(SInt, l.sort))
			st.heapSet(key, store(arr, Tm{"0", SInt}, fl[i]))
		case PElem:
			key := elemKey(p.Root) + "|" + prefix + l.path
			inner := ArrOf(m.idx(), l.sort)
			arr := st.heapGet(key, ArrOf(SInt, inner))
			st.heapSet(key, store(arr, p.Base, store(sel(arr, p.Base, inner), p.Idx, fl[i])))
		}
	}
}

// ptrOf turns a pointer value into a Ptr to its pointee.
func ptrOf(v *Val) *Ptr {
	if v.P != nil {
		return v.P
	}
	pt, ok := v.T.Underlying().(*types.Pointer)
	if !ok {
		panic("ptrOf: not a pointer type: " + v.T.String())
	}
	return &Ptr{Kind: PObj, Base: v.S, Root: pt.Elem()}
}

// addrFacts: injectivity of the address constructors, instantiated at p
// (ground facts keep queries quantifier-free).
func (p *Ptr) addrFacts(m Mode) Tm {
	switch p.Kind {
	case PObj, PBox:
		if len(p.Path) == 0 {
			return tTrue
		}
		a := p.addrTerm(m)
		return tm(SBool, "(= (fa_base %s) %s)", a.S, p.Base.S)
	case PElem:
		e := tm(SInt, "(elemaddr %s %s)", p.Base.S, p.Idx.S)
		f := and(tm(SBool, "(= (ea_arr %s) %s)", e.S, p.Base.S), tm(SBool, "(= (ea_idx %s) %s)", e.S, p.Idx.S))
		if len(p.Path) == 0 {
			return f
		}
		a := p.addrTerm(m)
		return and(f, tm(SBool, "(= (fa_base %s) %s)", a.S, e.S))
	}
	return tTrue
}

// addrTerm gives an Int term identifying the address (for ghost maps and lock names).
func (p *Ptr) addrTerm(m Mode) Tm {
	switch p.Kind {
	case PGlobal:
		return tm(SInt, "(glob_%s)", sanitize(p.Glob))
	case PObj, PBox:
		if len(p.Path) == 0 {
			return p.Base
		}
		pre, _ := m.subLeaves(p.Root, p.Path)
		return tm(SInt, "(fieldaddr %s %d)", p.Base.S, fieldPathID(typeKey(p.Root)+pre))
	case PElem:
		if len(p.Path) == 0 {
			return tm(SInt, "(elemaddr %s %s)", p.Base.S, p.Idx.S)
		}
		pre, _ := m.subLeaves(p.Root, p.Path)
		return tm(SInt, "(fieldaddr (elemaddr %s %s) %d)", p.Base.S, p.Idx.S, fieldPathID(typeKey(p.Root)+pre))
	}
	panic("addrTerm")
}

var fieldPathIDs = map[string]int{}

func fieldPathID(s string) int {
	if id, ok := fieldPathIDs[s]; ok {
		return id
	}
	id := len(fieldPathIDs) + 1
	fieldPathIDs[s] = id
	return id
}

// allocObject allocates a zeroed object of type t and returns the pointer value.
func (st *State) allocObject(ptrType types.Type, t types.Type) *Val {
	ref := st.newRef("obj")
	m := st.m
	if at, ok := t.Underlying().(*types.Array); ok {
		// array object: elements live in the element heap at arr=ref
		st.zeroElems(at.Elem(), ref)
		return &Val{T: ptrType, K: KPtr, S: ref}
	}
	p := &Ptr{Kind: PObj, Base: ref, Root: t}
	st.storeTo(p, m.zero(t))
	return &Val{T: ptrType, K: KPtr, S: ref}
}

func (st *State) zeroElems(elem types.Type, ref Tm) {
	m := st.m
	for _, l := range m.leaves(elem) {
		key := elemKey(elem) + "|" + l.path
		inner := ArrOf(m.idx(), l.sort)
		arr := st.heapGet(key, ArrOf(SInt, inner))
		var z Tm
		if strings.HasPrefix(string(l.sort), "(Array") {
			panic("zeroElems: nested arrays unsupported")
		}
		z = tm(inner, "((as const %s) %s)", inner, zeroOf(l.sort).S)
		st.heapSet(key, store(arr, ref, z))
	}
}

// elemAt reads element i (type elem) of backing array arr.
func (st *State) elemPtr(elem types.Type, arr, i Tm) *Ptr {
	return &Ptr{Kind: PElem, Base: arr, Idx: i, Root: elem}
}

// trigger: (Tr t), (Tr t+1), (Tr t-1) - the patterns of bounded quantifiers.
func (st *State) trigger(t Tm) {
	if t.Sort != st.m.idx() {
		return
	}
	for _, o := range st.trig {
		if o.S == t.S {
			return
		}
	}
	st.trig = append(st.trig, t)
	uf := st.x.trUF(t.Sort)
	one := st.m.idxLit(1)
	st.cmds = append(st.cmds, fmt.Sprintf("(assert (and (%s %s) (%s %s) (%s %s)))", uf, t.S, uf, st.m.add(t, one).S, uf, st.m.sub(t, one).S))
}

func (st *State) trTerms(s Sort) []Tm {
	var out []Tm
	for i := len(st.trig) - 1; i >= 0; i-- {
		if st.trig[i].Sort == s {
			out = append(out, st.trig[i])
		}
	}
	return out
}

// triggerRef: (TrR t) - the pattern of quantifiers over references.
func (st *State) triggerRef(t Tm) {
	if t.Sort != SInt {
		return
	}
	key := "R:" + t.S
	for _, o := range st.trig {
		if o.S == key {
			return
		}
	}
	st.trig = append(st.trig, Tm{key, "ref"})
	st.cmds = append(st.cmds, fmt.Sprintf("(assert (%s %s))", st.x.trRefUF(), t.S))
}
