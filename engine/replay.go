package main

// Replay of solver counterexamples against the real code (DESIGN.md 2.7): the model
// of a failed obligation is turned into an in-package Go test, injected with
// `go test -overlay` (nothing is written to /repo), with an oracle written from the
// property statement.

import (
	"context"
	"encoding/json"
	"fmt"
	"math/big"
	"os"
	"os/exec"
	"path/filepath"
	"regexp"
	"strings"
	"time"
)

type replayFile struct {
	Property   string            `json:"property"`
	Obligation string            `json:"obligation"`
	Desc       string            `json:"description"`
	Solver     string            `json:"solver"`
	Verdict    string            `json:"verdict"`
	Model      map[string]string `json:"model,omitempty"`
	RawModel   string            `json:"raw_model,omitempty"`
	Pkg        string            `json:"test_package,omitempty"`
	TestSource string            `json:"test_source,omitempty"`
	TestOutput string            `json:"test_output,omitempty"`
	Confirmed  bool              `json:"confirmed"`
	SMT2       string            `json:"smt2,omitempty"`
	Note       string            `json:"note,omitempty"`
}

type replayResult struct {
	Path      string
	Confirmed bool
	Verdict   string
}

// a replay builder turns a model into a test; returns package dir (relative to repo), source, ok
type replayBuilder func(ld *Loaded, o *Obligation, model map[string]string, smt string) (pkg string, src string, ok bool)

type replayReg struct {
	re *regexp.Regexp
	fn replayBuilder
	// bound: extra assertions to obtain a small model (appended before check-sat)
	bound func(vars []string, smt string) []string
}

var replayBuilders []replayReg

func registerReplay(pattern string, fn replayBuilder, bound func(vars []string, smt string) []string) {
	replayBuilders = append(replayBuilders, replayReg{regexp.MustCompile(pattern), fn, bound})
}

var valRe = regexp.MustCompile(`\(([^\s()]+)\s+((?:#x[0-9a-fA-F]+)|(?:#b[01]+)|(?:\(- \d+\))|(?:-?\d+)|true|false)\)`)

// parseModel reads the output of (get-value (...)).
func parseModel(s string) map[string]string {
	m := map[string]string{}
	for _, g := range valRe.FindAllStringSubmatch(s, -1) {
		name := g[1]
		if i := strings.LastIndex(name, "!"); i >= 0 {
			name = name[:i]
		}
		v := g[2]
		switch {
		case strings.HasPrefix(v, "#x"):
			n, _ := new(big.Int).SetString(v[2:], 16)
			bits := uint(len(v[2:]) * 4)
			if n.Bit(int(bits-1)) == 1 { // present as signed
				n.Sub(n, new(big.Int).Lsh(big.NewInt(1), bits))
			}
			v = n.String()
		case strings.HasPrefix(v, "#b"):
			n, _ := new(big.Int).SetString(v[2:], 2)
			v = n.String()
		case strings.HasPrefix(v, "(- "):
			v = "-" + strings.TrimSuffix(v[3:], ")")
		}
		if _, dup := m[name]; !dup {
			m[name] = v
		}
	}
	return m
}

func writeReplay(ld *Loaded, id string, o *Obligation, work string) replayResult {
	dir := filepath.Join(verifDir, "replays", id)
	os.MkdirAll(dir, 0o755)
	fname := sanitize(strings.ReplaceAll(familyName(o.Name), "#", "__")) + ".json"
	path := filepath.Join(dir, fname)
	rf := replayFile{Property: id, Obligation: o.Name, Verdict: "failed"}
	if o.Static {
		rf.Desc = o.Detail
		rf.Verdict = "static"
		rf.Note = "decided by a scan of the SSA, no solver involved"
		for _, rb := range replayBuilders {
			if !rb.re.MatchString(o.Name) {
				continue
			}
			if pkg, src, ok := rb.fn(ld, o, map[string]string{}, ""); ok {
				rf.Pkg, rf.TestSource = pkg, src
				out, confirmed := runReplayTest(pkg, src, work)
				rf.TestOutput, rf.Confirmed = out, confirmed
				if !confirmed {
					rf.Note += "; the registered probe did not reproduce a failure on this tree (the obligation still failed)"
				}
			}
			break
		}
	}
	if q := o.Failed; q != nil {
		rf.Desc, rf.Solver, rf.Verdict, rf.RawModel = q.Desc, q.Solver, q.Verdict, strings.TrimSpace(q.Model)
		// keep the query next to the replay file
		smtPath := strings.TrimSuffix(path, ".json") + ".smt2"
		os.WriteFile(smtPath, []byte(q.SMT), 0o644)
		rf.SMT2 = smtPath
		if q.Verdict != "" {
			for _, rb := range replayBuilders {
				if !rb.re.MatchString(o.Name) {
					continue
				}
				raw := q.Model
				if rb.bound != nil && q.Verdict == "sat" {
					if small := boundedModel(q, rb.bound(q.Values, q.SMT), work); small != "" {
						raw = small
					}
				}
				rf.RawModel = strings.TrimSpace(raw)
				rf.Model = parseModel(raw)
				pkg, src, ok := rb.fn(ld, o, rf.Model, q.SMT)
				if !ok {
					rf.Note = "model could not be turned into a concrete input"
					break
				}
				rf.Pkg, rf.TestSource = pkg, src
				out, confirmed := runReplayTest(pkg, src, work)
				rf.TestOutput, rf.Confirmed = out, confirmed
				if !confirmed {
					rf.Note = "the model did not reproduce on the real code (unreachable state or contract too weak); the obligation still failed"
				}
				break
			}
			if rf.Model == nil {
				rf.Model = parseModel(q.Model)
			}
		}
	}
	b, _ := json.MarshalIndent(rf, "", " ")
	os.WriteFile(path, b, 0o644)
	return replayResult{Path: path, Confirmed: rf.Confirmed, Verdict: rf.Verdict}
}

// boundedModel re-solves a sat query with extra bounds to get small inputs.
func boundedModel(q *Query, extra []string, work string) string {
	if len(extra) == 0 {
		return ""
	}
	var b strings.Builder
	b.WriteString(strings.TrimSuffix(q.SMT, "(check-sat)\n"))
	for _, e := range extra {
		b.WriteString(e)
		b.WriteString("\n")
	}
	b.WriteString("(check-sat)\n(get-value (")
	for _, v := range q.Values {
		b.WriteString(v + " ")
	}
	b.WriteString("))\n")
	os.MkdirAll(work, 0o755)
	f := filepath.Join(work, "bounded_model.smt2")
	if err := os.WriteFile(f, []byte(b.String()), 0o644); err != nil {
		return ""
	}
	defer os.Remove(f)
	ctx, cancel := context.WithTimeout(context.Background(), 25*time.Second)
	defer cancel()
	out, _ := exec.CommandContext(ctx, "z3-new", "-T:20", f).CombinedOutput()
	if strings.HasPrefix(strings.TrimSpace(string(out)), "sat") {
		return string(out)
	}
	return ""
}

// runReplayTest injects src as an in-package test of /repo/<pkg> through an overlay.
func runReplayTest(pkg, src, work string) (string, bool) {
	os.MkdirAll(work, 0o755)
	testFile := filepath.Join(work, "zz_replay_verif_test.go")
	if err := os.WriteFile(testFile, []byte(src), 0o644); err != nil {
		return err.Error(), false
	}
	target := filepath.Join(repoDir, pkg, "zz_replay_verif_test.go")
	ov, _ := json.Marshal(map[string]interface{}{"Replace": map[string]string{target: testFile}})
	ovFile := filepath.Join(work, "overlay.json")
	os.WriteFile(ovFile, ov, 0o644)
	ctx, cancel := context.WithTimeout(context.Background(), 120*time.Second)
	defer cancel()
	args := []string{"test", "-overlay", ovFile, "-vet=off", "-count=1", "-v", "-timeout", "60s", "-run", "TestReplayVerif", "./" + pkg}
	if strings.Contains(src, "//replay:race") {
		args = append(args[:1], append([]string{"-race"}, args[1:]...)...)
	}
	cmd := exec.CommandContext(ctx, "go", args...)
	cmd.Dir = repoDir
	cmd.Env = goEnv()
	out, _ := cmd.CombinedOutput()
	s := string(out)
	if len(s) > 6000 {
		s = s[:3000] + "\n...\n" + s[len(s)-3000:]
	}
	if strings.Contains(src, "//replay:race") {
		return s, strings.Contains(s, "WARNING: DATA RACE")
	}
	return s, strings.Contains(s, "REPLAY-CONFIRMED")
}

func replayOnly(id, file string) int {
	b, err := os.ReadFile(file)
	if err != nil {
		fmt.Fprintln(os.Stderr, err)
		return 2
	}
	var rf replayFile
	if err := json.Unmarshal(b, &rf); err != nil {
		fmt.Fprintln(os.Stderr, err)
		return 2
	}
	if rf.TestSource == "" {
		fmt.Printf("replay file %s carries no executable test (obligation %s, verdict %s): %s\n", file, rf.Obligation, rf.Verdict, rf.Note)
		fmt.Printf("VIOLATION property=%s replay=%s no-failing-input-found\n", id, file)
		return 1
	}
	work := filepath.Join(verifDir, ".work", id+"-replay")
	defer os.RemoveAll(work)
	out, confirmed := runReplayTest(rf.Pkg, rf.TestSource, work)
	fmt.Println(out)
	if confirmed {
		fmt.Printf("VIOLATION property=%s replay=%s\n", id, file)
		return 1
	}
	fmt.Println("replay did not reproduce on the current tree")
	return 0
}

func modelInt(m map[string]string, key string) (int64, bool) {
	v, ok := m[key]
	if !ok {
		return 0, false
	}
	n, ok := new(big.Int).SetString(v, 10)
	if !ok || !n.IsInt64() {
		return 0, false
	}
	return n.Int64(), true
}
