#!/usr/bin/env python3
# Regenerates MANIFEST.json from the table below (run after claiming / dropping a property).
import json, subprocess

CLAIMS = {
 "C19": dict(
   text="Per-function contracts on the real pool code (pmath bit tricks in exact 64-bit vectors, Pool.Get/Put against a ghost shard invariant over an assumed sync.Pool contract, pbytes/pbuffer wrappers): every obligation is generated from /repo's SSA on each run and discharged by SMT for all sizes, capacities and pool step sizes (step case-split 2^0..2^62, exhaustiveness proved). Right level: the property is arithmetic over unbounded inputs that tests sample at step size 1 only.",
   note="Assumed: sync.Pool contract (Get returns nil or an item previously Put into that pool and removes it), bytes.Buffer.Cap/NewBuffer contracts, global invariant of DefaultPool at entry of the package-level wrappers, capacity of a pooled buffer does not change while the pool owns it; go/ssa + engine semantics + solvers trusted (evidence: trusted_base).",
   technique="contract-based deductive verification: VC generation over go/ssa, SMT (z3/cvc5) discharge, counterexample replay via go test -overlay",
   ref="DESIGN.md section C19"),
 "C17": dict(
   text="Sink-consistency contracts on every method of the four transport wrapper variants and on NewTransport: for each variant one fixed sink/source object (the bufio writer/reader created over the connection, or the connection itself), and every Write/Writev/Flush/Read/Close proved, on the real SSA including the compiler-generated promoted-method wrappers, to emit exactly one call on that object with exactly the caller's arguments and to return its results. Holds for all buffer sizes and arguments; a method that bypasses pending buffered bytes, a deleted method silently replaced by the promoted one, a Close that does not flush or a mis-wired constructor each fail a named obligation.",
   note="Assumed (not proved): the bufio.Writer/bufio.Reader/net.Buffers.WriteTo contracts (Write appends to the writer's logical stream, Flush pushes it to the underlying sink in order, WriteTo appends the buffers in order) and net.Conn; from them and the proved sink consistency the byte-stream statement follows by a paper argument (DESIGN.md C17). No bound on sizes or call sequences.",
   technique="contract-based deductive verification: VC generation over go/ssa (ghost call trace), SMT discharge",
   ref="DESIGN.md section C17"),
}

NA = {
 "C15": "no contract within reach decides the statement: its oracle is a full HTTP/1.x parser plus printf formatting (DESIGN.md section C15)",
}
PENDING = "contracts/engine support not complete yet (DESIGN.md section 5); not claimed until every obligation discharges on the unchanged tree"

ids = ["C%02d" % i for i in range(1, 21)]
commits = subprocess.run(["git", "-C", "/repo", "log", "--format=%h %s"], capture_output=True, text=True).stdout.splitlines()
hooks = [c.split()[0] for c in commits if c.split(" ", 1)[1].startswith("verif:")]
m = {
 "version": 1,
 "setup_cmd": "cd /verif/engine && GOFLAGS=-mod=mod GOPROXY=off GOSUMDB=off GOTOOLCHAIN=local go build -o /verif/bin/vcgen .",
 "hooks": {
  "guard": "verif",
  "enable": "go/packages loads /repo with -tags verif; the only guarded files are the comment-only contract files /repo/**/zz_contracts_verif.go (//go:build verif)",
  "baseline_off_cmd": "cd /repo && GOFLAGS=-mod=mod GOPROXY=off GOSUMDB=off go test -vet=off -count=1 -timeout 25m ./...",
  "source_commits": hooks,
  "add_only": True,
 },
 "engines": [{"name": "vcgen", "path": "/verif/engine", "serves_properties": sorted(CLAIMS),
              "kind_free_text": "home-made verification-condition generator over go/ssa (x/tools v0.29.0) with //@ contracts in /repo/**/zz_contracts_verif.go and /verif/engine/contracts/*.contracts (assumed library contracts); obligations discharged by z3 5.1.0 / z3 4.8.12 / cvc5 1.0.3"}],
 "checks": [],
 "notes": "Every check is ./check <id> [--thorough]; known findings in known_findings.json; must-fail mutants in selftest/<id>/ and seeded/; see DESIGN.md.",
 "not_applicable": [],
}
for i in ids:
    if i in CLAIMS:
        c = CLAIMS[i]
        m["checks"].append({
          "property_id": i,
          "quick_cmd": "./check %s" % i,
          "thorough_cmd": "./check %s --thorough" % i,
          "evidence_file": "/verif/evidence/%s.json" % i,
          "replay_cmd_template": "./check %s --replay {path}" % i,
          "engine": "vcgen",
          "level_claimed": {"category": "proof", "text": c["text"], "design_ref": c["ref"]},
          "level_note": c["note"],
          "technique": c["technique"],
        })
    else:
        m["not_applicable"].append({"property_id": i, "reason": NA.get(i, PENDING)})
json.dump(m, open("/verif/MANIFEST.json", "w"), indent=1)
print("claimed:", sorted(CLAIMS))
