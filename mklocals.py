#!/usr/bin/env python3
# Regenerates the "//@   locals ..." lines of the contract files in /repo from `vcgen params`:
# a contract that names local variables of its function (loop invariants, asserts, exit clauses)
# records the function's locals in declaration order, so that the clause survives a rename.
import subprocess, re, collections
out = subprocess.run(['/verif/bin/vcgen', 'params'], capture_output=True, text=True).stdout
byfile = collections.defaultdict(list)
for l in out.splitlines():
    f = l.split('\t')
    if len(f) >= 6 and f[0].startswith('/repo/') and f[5].strip():
        byfile[f[0]].append((int(f[2]), f[5].split()))
for path, items in byfile.items():
    lines = open(path).read().split('\n')
    # drop old locals lines first, remembering the shift
    for ln, locs in sorted(items, reverse=True):
        i = ln - 1
        assert lines[i].startswith('//@ func'), (path, ln, lines[i])
        j = i + 1
        while j < len(lines) and lines[j].startswith('//@  '):
            j += 1
        block = lines[i + 1:j]
        block = [b for b in block if not re.match(r'//@\s+locals\b', b)]
        text = '\n'.join(b for b in block if not re.match(r'//@\s+(params|results)\b', b))
        if any(re.search(r'\b' + re.escape(v) + r'\b', text) for v in locs):
            k = 0
            while k < len(block) and re.match(r'//@\s+(params|results)\b', block[k]):
                k += 1
            block.insert(k, '//@   locals ' + ' '.join(locs))
        lines[i + 1:j] = block
    open(path, 'w').write('\n'.join(lines))
